package main

import (
	"fmt"
	"go/types"
	"strings"

	"golang.org/x/tools/go/ssa"
)

// State is the symbolic machine state at a program point.
type State struct {
	pc      string                 // path condition (a named Bool)
	cells   map[*ssa.Alloc]string  // non-escaping locals
	heap    map[string]string      // heap key -> array term (missing = base of epoch)
	epoch   int                    // generation of the unmodelled remainder of the heap
	ext     int                    // generation of heaps of dependency-package types
	alloc   string                 // allocation counter: every live reference is < alloc
	globals map[*ssa.Global]string // package-level variables
	ghost   map[string]string      // ghost scalars
}

func (s *State) clone() *State {
	n := &State{pc: s.pc, epoch: s.epoch, ext: s.ext, alloc: s.alloc,
		cells: make(map[*ssa.Alloc]string, len(s.cells)), heap: make(map[string]string, len(s.heap)),
		globals: make(map[*ssa.Global]string, len(s.globals)), ghost: make(map[string]string, len(s.ghost))}
	for k, v := range s.cells {
		n.cells[k] = v
	}
	for k, v := range s.heap {
		n.heap[k] = v
	}
	for k, v := range s.globals {
		n.globals[k] = v
	}
	for k, v := range s.ghost {
		n.ghost[k] = v
	}
	return n
}

var nEpoch int

func (vc *VC) epochHeap(key string, epoch int) string {
	n := fmt.Sprintf("%s@e%d", vc.heapNames[key], epoch)
	if !vc.declared[n] {
		vc.declared[n] = true
		vc.emit(fmt.Sprintf("(declare-fun %s () %s)", n, vc.heapSorts[key]))
	}
	return n
}

func isExternalKey(key string) bool {
	if strings.HasPrefix(key, "G|") {
		return false
	}
	i := strings.Index(key, "|")
	t := key[i+1:]
	return !strings.Contains(t, repoModulePrefix) && strings.Contains(t, ".")
}

func (vc *VC) heapGet(st *State, key string) string {
	t := vc.heapGet0(st, key)
	if vc.heapTrace != nil {
		vc.heapTrace[t] = vc.heapSorts[key]
	}
	return t
}

func (vc *VC) heapGet0(st *State, key string) string {
	if t, ok := st.heap[key]; ok {
		return t
	}
	if st.ext != 0 && isExternalKey(key) {
		n := fmt.Sprintf("%s@e%dx%d", vc.heapNames[key], st.epoch, st.ext)
		if !vc.declared[n] {
			vc.declared[n] = true
			vc.emit(fmt.Sprintf("(declare-fun %s () %s)", n, vc.heapSorts[key]))
		}
		return n
	}
	return vc.epochHeap(key, st.epoch)
}

// havocExternal forgets the content of every heap of dependency types.
func (vc *VC) havocExternal(st *State) {
	nEpoch++
	st.ext = nEpoch
	for k := range st.heap {
		if isExternalKey(k) {
			delete(st.heap, k)
		}
	}
}

func (vc *VC) globalGet(st *State, g *ssa.Global) string {
	if t, ok := st.globals[g]; ok {
		return t
	}
	n := fmt.Sprintf("glob_%s@e%d", sanitize(g.Pkg.Pkg.Name()+"."+g.Name()), st.epoch)
	if !vc.declared[n] {
		vc.declared[n] = true
		et := g.Type().(*types.Pointer).Elem()
		vc.emit(fmt.Sprintf("(declare-fun %s () %s)", n, vc.sortOf(et)))
		for _, f := range vc.typeFacts(n, et, "", 2) {
			vc.emit(fmt.Sprintf("(assert %s)", f))
		}
	}
	return n
}

func (vc *VC) ghostGet(st *State, name, sort string) string {
	if t, ok := st.ghost[name]; ok {
		return t
	}
	n := fmt.Sprintf("ghost_%s@e%d", sanitize(name), st.epoch)
	if !vc.declared[n] {
		vc.declared[n] = true
		vc.emit(fmt.Sprintf("(declare-fun %s () %s)", n, sort))
	}
	return n
}

// havocAll forgets everything about memory not private to the caller.
func (vc *VC) havocAll(st *State) {
	nEpoch++
	st.epoch = nEpoch
	st.ext = 0
	st.heap = map[string]string{}
	st.globals = map[*ssa.Global]string{}
	g := map[string]string{}
	for k, v := range st.ghost {
		if strings.HasPrefix(k, "local:") {
			g[k] = v
		}
	}
	st.ghost = g
	old := st.alloc
	st.alloc = vc.freshConst("alloc", "Int")
	vc.assume(st.pc, fmt.Sprintf("(>= %s %s)", st.alloc, old))
}

type edgeState struct {
	from *ssa.BasicBlock
	st   *State
}

// merge joins the states of several incoming edges.
func (vc *VC) merge(ins []edgeState, hint string, cellType func(*ssa.Alloc) types.Type) *State {
	if len(ins) == 1 {
		return ins[0].st.clone()
	}
	res := &State{cells: map[*ssa.Alloc]string{}, heap: map[string]string{}, globals: map[*ssa.Global]string{}, ghost: map[string]string{}}
	var pcs []string
	for _, e := range ins {
		pcs = append(pcs, e.st.pc)
	}
	res.pc = vc.freshDef("pc_"+hint, "Bool", "(or "+strings.Join(pcs, " ")+")")
	pick := func(sort string, vals []string, hint string) string {
		same := true
		for _, v := range vals[1:] {
			if v != vals[0] {
				same = false
			}
		}
		if same {
			return vals[0]
		}
		t := vals[len(vals)-1]
		for i := len(vals) - 2; i >= 0; i-- {
			t = fmt.Sprintf("(ite %s %s %s)", ins[i].st.pc, vals[i], t)
		}
		return vc.freshDef(hint, sort, t)
	}
	// epoch
	sameEpoch := true
	for _, e := range ins[1:] {
		if e.st.epoch != ins[0].st.epoch || e.st.ext != ins[0].st.ext {
			sameEpoch = false
		}
	}
	if sameEpoch {
		res.epoch = ins[0].st.epoch
		res.ext = ins[0].st.ext
	} else {
		nEpoch++
		res.epoch = nEpoch
	}
	// cells
	cellSet := map[*ssa.Alloc]bool{}
	for _, e := range ins {
		for c := range e.st.cells {
			cellSet[c] = true
		}
	}
	for c := range cellSet {
		var vals []string
		for _, e := range ins {
			v, ok := e.st.cells[c]
			if !ok {
				v = vc.zeroOf(cellType(c))
			}
			vals = append(vals, v)
		}
		res.cells[c] = pick(vc.sortOf(cellType(c)), vals, "m_"+c.Comment)
	}
	// heaps
	keys := map[string]bool{}
	if sameEpoch {
		for _, e := range ins {
			for k := range e.st.heap {
				keys[k] = true
			}
		}
	} else {
		for k := range vc.heapNames {
			keys[k] = true
		}
	}
	for _, k := range sortedKeys(keys) {
		var vals []string
		for _, e := range ins {
			vals = append(vals, vc.heapGet(e.st, k))
		}
		res.heap[k] = pick(vc.heapSorts[k], vals, "m_"+vc.heapNames[k])
	}
	// globals
	gset := map[*ssa.Global]bool{}
	for _, e := range ins {
		for g := range e.st.globals {
			gset[g] = true
		}
	}
	for g := range gset {
		var vals []string
		for _, e := range ins {
			vals = append(vals, vc.globalGet(e.st, g))
		}
		res.globals[g] = pick(vc.sortOf(g.Type().(*types.Pointer).Elem()), vals, "m_"+g.Name())
	}
	// ghost
	hs := map[string]bool{}
	for _, e := range ins {
		for g := range e.st.ghost {
			hs[g] = true
		}
	}
	for _, g := range sortedKeys(hs) {
		var vals []string
		ok := true
		for _, e := range ins {
			v, has := e.st.ghost[g]
			if !has {
				ok = false
				break
			}
			vals = append(vals, v)
		}
		if ok {
			srt := "Int"
			if s, has := vc.eng.ghostSorts[g]; has {
				srt = s
			}
			if s, has := vc.ghostLocalSorts[g]; has {
				srt = s
			}
			res.ghost[g] = pick(srt, vals, "m_ghost")
		}
	}
	// alloc
	var as []string
	for _, e := range ins {
		as = append(as, e.st.alloc)
	}
	res.alloc = pick("Int", as, "m_alloc")
	return res
}

func (vc *VC) freshDef(hint, sort, term string) string {
	if vc.quiet > 0 {
		return term
	}
	n := vc.fresh(hint)
	vc.emit(fmt.Sprintf("(define-fun %s () %s %s)", n, sort, term))
	return n
}

// ---------------------------------------------------------------- type facts

// typeFacts returns well-typedness facts for a value of Go type t: integer
// ranges, references non-negative and below the allocation counter, slice
// headers well-formed.  alloc may be "" (no allocation bound).
func (vc *VC) typeFacts(x string, t types.Type, alloc string, depth int) []string {
	var out []string
	switch u := t.Underlying().(type) {
	case *types.Basic:
		if ii, ok := intInfoOf(u); ok {
			out = append(out, ii.inRange(x))
		} else if u.Kind() == types.String {
			out = append(out, fmt.Sprintf("(>= (strlen %s) 0)", x))
		}
	case *types.Pointer, *types.Chan, *types.Map, *types.Signature:
		out = append(out, fmt.Sprintf("(>= %s 0)", x))
		if alloc != "" {
			out = append(out, fmt.Sprintf("(< %s %s)", x, alloc))
		}
	case *types.Interface:
		out = append(out, fmt.Sprintf("(>= %s 0)", x))
		out = append(out, fmt.Sprintf("(= (= %s 0) (= (dyntype %s) 0))", x, x))
	case *types.Slice:
		out = append(out, fmt.Sprintf("(and (>= (s-arr %s) 0) (>= (s-off %s) 0) (>= (s-len %s) 0) (<= (s-len %s) (s-cap %s)) (<= (+ (s-off %s) (s-cap %s)) 9223372036854775807) (=> (= (s-arr %s) 0) (= (s-cap %s) 0)))", x, x, x, x, x, x, x, x, x))
		if alloc != "" {
			out = append(out, fmt.Sprintf("(< (s-arr %s) %s)", x, alloc))
		}
	case *types.Struct:
		if depth <= 0 {
			break
		}
		for i := 0; i < u.NumFields(); i++ {
			out = append(out, vc.typeFacts(vc.fieldSel(t, i, x), u.Field(i).Type(), alloc, depth-1)...)
		}
	}
	return out
}

func (vc *VC) assumeTyped(st *State, x string, t types.Type) {
	for _, f := range vc.typeFacts(x, t, st.alloc, 2) {
		vc.assume(st.pc, f)
	}
}
