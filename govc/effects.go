package main

// Frame (effect) obligations that are decided on the SSA form without an SMT
// query.  Two directives, written at top level of a contract file:
//
//	//@ effects C15 : readonly <import path prefix>
//	    every call, made from a function of this package, to a function or
//	    method declared under the prefix (a dependency whose values the
//	    package receives as input) is read-only: the callee does not reach,
//	    through static calls inside the dependency, a function of the
//	    dependency named in `mutator` lines (pdata: (*internal.State).AssertMutable,
//	    which every mutating pdata method calls first).
//
//	//@ effects C16 : noglobalwrites <import path prefix>
//	    no function of a loaded package under the prefix, other than package
//	    initialisers, writes package-level state: it stores neither to a
//	    package-level variable nor through an address derived from one
//	    (field / element / load / slice / map of it, through local variables,
//	    phis, conversions and interface values), and passes no such value to a
//	    parameter through which the callee writes.  The per-function frame
//	    contract `writes-through(params)` is inferred to a fixed point and then
//	    checked function by function against the callees' contracts.
//
//	//@ effects C12 : distinctinit <Type>.<field>
//	    postcondition of the package initialiser, decided by reading it: every
//	    store the initialiser of this package makes into field <field> of an
//	    object of struct type <Type> stores a constant, and these constants are
//	    pairwise different (a table of named constants such as the payload
//	    type prefixes, whose entries key streams).  One obligation per store.
//
//	//@ effects C11 : threadowned <Type>.<f1>,<f2>,...@<entry method>
//	    ownership of mutable fields by one goroutine (race freedom, thread-modular):
//	    every function of this package that reads or writes one of the listed
//	    fields of a <Type> object runs only on the goroutine whose entry point is
//	    <Type>.<entry method>: it is that method, or it is not the target of a
//	    `go` statement and every function of the package that calls it (or creates
//	    it as a function literal without starting it with `go`) is itself such a
//	    function.  Accesses through an object the function has just allocated
//	    (construction, before the object is shared) are exempt.  One obligation
//	    per access.
//
// Assumptions (reported): memory reachable from a function's parameters is not
// package-level state unless it was derived from a package-level variable in
// that function or handed in through a parameter recorded in the summaries
// (pointers stored into heap objects are not followed); functions of
// dependencies do not write through their arguments, except the listed
// writers (sort.*, sync.*, atomic.*, append/copy/delete/clear).

import (
	"fmt"
	"go/token"
	"go/types"
	"os"
	"sort"
	"strings"

	"golang.org/x/tools/go/ssa"
)

type EffectDirective struct {
	PkgPath string
	Props   []string
	Kind    string // readonly | noglobalwrites
	Prefix  string
	Src     string
}

const solverEffects = "govc frame/effect analysis over go/ssa (no SMT query)"

func (e *Engine) effectUnits(d EffectDirective, only func(string) bool) []*Unit {
	switch d.Kind {
	case "readonly":
		return e.readonlyUnits(d, only)
	case "noglobalwrites":
		return e.globalWriteUnits(d, only)
	case "distinctinit":
		return e.distinctInitUnits(d, only)
	case "threadowned":
		return e.threadOwnedUnits(d, only)
	}
	e.fatalf("%s: unknown effects kind %q", d.Src, d.Kind)
	return nil
}

func (e *Engine) effectUnit(fn *ssa.Function, d EffectDirective) *Unit {
	ct := &FuncContract{Key: e.funcKey(fn), PkgPath: d.PkgPath, Kind: "func", Loops: map[int]*LoopSpec{}, Src: d.Src, Props: d.Props}
	// several packages share a package name (arrow, otlp): name effect units by path
	u := &Unit{Fn: fn, Ct: ct, Props: d.Props, Name: strings.TrimPrefix(fnPkgPath(fn), repoModulePrefix+"/") + "." + e.funcKey(fn)}
	u.VC = newVC(e, u.Name)
	return u
}

func (u *Unit) effectObl(name, pos, desc string, ok bool, why string) {
	o := &Obligation{Name: u.Name + "/" + name, Kind: "effect", Func: u.Name, Pos: pos, Desc: desc, vc: u.VC}
	if ok {
		o.goal = "false" // nothing refutes it
	} else {
		o.goal = "true"
		o.Output = why
	}
	u.VC.obligations = append(u.VC.obligations, o)
}

// allRepoFuncs: functions with bodies declared in loaded packages under prefix
// (including anonymous functions and instantiations reachable from them).
func (e *Engine) funcsUnder(prefix string) []*ssa.Function {
	var out []*ssa.Function
	seen := map[*ssa.Function]bool{}
	var add func(f *ssa.Function)
	add = func(f *ssa.Function) {
		if f == nil || seen[f] || len(f.Blocks) == 0 {
			return
		}
		seen[f] = true
		out = append(out, f)
		for _, a := range f.AnonFuncs {
			add(a)
		}
	}
	for _, p := range e.prog.AllPackages() {
		if p.Pkg == nil || !strings.HasPrefix(p.Pkg.Path(), prefix) {
			continue
		}
		for _, m := range p.Members {
			switch v := m.(type) {
			case *ssa.Function:
				add(v)
			case *ssa.Type:
				for _, t := range []types.Type{v.Type(), types.NewPointer(v.Type())} {
					ms := e.prog.MethodSets.MethodSet(t)
					for i := 0; i < ms.Len(); i++ {
						add(e.prog.MethodValue(ms.At(i)))
					}
				}
			}
		}
	}
	// instantiations and wrappers called from those
	for i := 0; i < len(out); i++ {
		for _, b := range out[i].Blocks {
			for _, in := range b.Instrs {
				if c, ok := in.(ssa.CallInstruction); ok {
					if f := c.Common().StaticCallee(); f != nil && f.Pkg == nil && fnPkgPathOK(f, prefix) {
						add(f)
					}
				}
			}
		}
	}
	sort.Slice(out, func(i, j int) bool { return out[i].String() < out[j].String() })
	return out
}

func fnPkgPathOK(f *ssa.Function, prefix string) bool {
	return strings.HasPrefix(fnPkgPath(f), prefix)
}

func isTestOrContractFile(e *Engine, fn *ssa.Function) bool {
	if !fn.Pos().IsValid() {
		return false
	}
	name := e.fset.Position(fn.Pos()).Filename
	return strings.HasSuffix(name, "_test.go") || strings.HasSuffix(name, "verif_contracts.go")
}

// ---------------------------------------------------------------- readonly

func (e *Engine) readonlyUnits(d EffectDirective, only func(string) bool) []*Unit {
	mut := e.mutatorsUnder(d.Prefix)
	if os.Getenv("GOVC_EFFDEBUG") != "" {
		nb := 0
		for _, f := range e.funcsUnder(d.Prefix) {
			if len(f.Blocks) > 0 {
				nb++
			}
			if strings.Contains(f.String(), "RemoveIf") || strings.Contains(f.String(), "AssertMutable") {
				fmt.Fprintf(os.Stderr, "EFFDEBUG dep fn %s blocks=%d mut=%v\n", f.String(), len(f.Blocks), mut[f])
			}
		}
		fmt.Fprintf(os.Stderr, "EFFDEBUG %d dependency functions with bodies, %d mutators\n", nb, len(mut))
	}
	var units []*Unit
	for _, fn := range e.funcsUnder(d.PkgPath) {
		if fnPkgPath(fn) != d.PkgPath || isTestOrContractFile(e, fn) {
			continue
		}
		if only != nil && !only(e.unitName(fn)) {
			continue
		}
		var u *Unit
		n := 0
		for _, b := range fn.Blocks {
			for _, in := range b.Instrs {
				c, ok := in.(ssa.CallInstruction)
				if !ok {
					continue
				}
				cc := c.Common()
				var callee *ssa.Function
				var cname string
				if cc.IsInvoke() {
					if p := cc.Method.Pkg(); p == nil || !strings.HasPrefix(p.Path(), d.Prefix) {
						continue
					}
					cname = cc.Method.FullName()
				} else {
					callee = cc.StaticCallee()
					if callee == nil || !strings.HasPrefix(fnPkgPath(callee), d.Prefix) {
						continue
					}
					cname = callee.String()
				}
				if u == nil {
					u = e.effectUnit(fn, d)
				}
				okRO := callee != nil && !mut[callee]
				why := ""
				if !okRO {
					if callee == nil {
						why = "interface method of the dependency: effect unknown"
					} else {
						why = "the callee reaches the dependency's mutability assertion: it modifies the value it is called on (or its destination argument)"
					}
				}
				u.effectObl(fmt.Sprintf("effect:readonly@%s#%d", shortCallee(cc), n), e.posOf(in.Pos()), "call to "+cname+" does not modify "+d.Prefix+" values", okRO, why)
				n++
			}
		}
		if u != nil {
			units = append(units, u)
		}
	}
	return units
}

func (e *Engine) posOf(p token.Pos) string {
	if !p.IsValid() {
		return ""
	}
	ps := e.fset.Position(p)
	return fmt.Sprintf("%s:%d", strings.TrimPrefix(ps.Filename, "/repo/"), ps.Line)
}

// mutatorsUnder: functions of the dependency that (transitively, through
// static calls inside the dependency) call a method named AssertMutable.
func (e *Engine) mutatorsUnder(prefix string) map[*ssa.Function]bool {
	// the dependency's function bodies are needed here (loadEngine builds repository packages only)
	for _, sp := range e.prog.AllPackages() {
		if sp.Pkg != nil && strings.HasPrefix(sp.Pkg.Path(), prefix) {
			sp.Build()
		}
	}
	fns := e.funcsUnder(prefix)
	mut := map[*ssa.Function]bool{}
	calls := map[*ssa.Function][]*ssa.Function{}
	for _, f := range fns {
		for _, b := range f.Blocks {
			for _, in := range b.Instrs {
				c, ok := in.(ssa.CallInstruction)
				if !ok {
					continue
				}
				if g := c.Common().StaticCallee(); g != nil {
					if g.Name() == "AssertMutable" {
						mut[f] = true
					}
					calls[f] = append(calls[f], g)
				} else if c.Common().IsInvoke() {
					// dynamic call inside the dependency: treat as a mutation
					if p := c.Common().Method.Pkg(); p != nil && strings.HasPrefix(p.Path(), prefix) {
						mut[f] = true
					}
				}
			}
		}
	}
	for changed := true; changed; {
		changed = false
		for _, f := range fns {
			if mut[f] {
				continue
			}
			for _, g := range calls[f] {
				if mut[g] {
					mut[f] = true
					changed = true
					break
				}
			}
		}
	}
	return mut
}

// ---------------------------------------------------------- noglobalwrites

// labels of a value: bit 0 = derived from package-level state; bit 1+i =
// derived from parameter i (receiver first, then free variables after the
// parameters).
type labelSet uint64

const labGlobal labelSet = 1

type fnSummary struct {
	writes  labelSet // parameters (bits 1..) through which the function writes
	returns [6]labelSet // per result (the last entry collects results 5..): bit 0: may return package-level state; bit 1+i: may return (part of) parameter i
}

type gwViolation struct {
	pos  token.Pos
	what string
}

type gwState struct {
	taint   map[string]bool                  // heap locations (struct field / element type) that may hold package-level state
	parks   map[*ssa.Function]map[string]labelSet // function -> heap location -> parameters whose value is stored there
	grew    bool
	e     *Engine
	sums  map[*ssa.Function]*fnSummary
	impls map[string][]*ssa.Function // interface method id -> repo implementations
	prefix string
}

func pointerLike(t types.Type) bool {
	switch u := t.Underlying().(type) {
	case *types.Pointer, *types.Slice, *types.Map, *types.Chan, *types.Interface, *types.Signature:
		return true
	case *types.Struct:
		for i := 0; i < u.NumFields(); i++ {
			if pointerLike(u.Field(i).Type()) {
				return true
			}
		}
	case *types.Array:
		return pointerLike(u.Elem())
	case *types.Tuple:
		for i := 0; i < u.Len(); i++ {
			if pointerLike(u.At(i).Type()) {
				return true
			}
		}
	}
	return false
}

// externalWriter: dependency functions that write through an argument.
// Returns the indices of the written arguments (receiver = 0).
func externalWriter(f *ssa.Function) []int {
	pkg := fnPkgPath(f)
	name := f.Name()
	switch pkg {
	case "sort":
		switch name {
		case "Slice", "SliceStable", "Sort", "Stable", "Strings", "Ints", "Float64s":
			return []int{0}
		}
	case "slices":
		if strings.HasPrefix(name, "Sort") || name == "Reverse" {
			return []int{0}
		}
	case "sync/atomic":
		if strings.HasPrefix(name, "Store") || strings.HasPrefix(name, "Add") || strings.HasPrefix(name, "Swap") || strings.HasPrefix(name, "CompareAndSwap") || strings.HasPrefix(name, "Or") || strings.HasPrefix(name, "And") {
			return []int{0}
		}
	case "sync":
		// a package-level sync.Pool / sync.Map / Once / WaitGroup is shared mutable state
		if f.Signature.Recv() != nil {
			rt := f.Signature.Recv().Type().String()
			if strings.Contains(rt, "sync.Mutex") || strings.Contains(rt, "sync.RWMutex") {
				return nil
			}
			return []int{0}
		}
	case "container/list", "container/heap", "container/ring", "bytes", "strings", "math/rand", "math/rand/v2":
		if f.Signature.Recv() != nil {
			if _, ptr := f.Signature.Recv().Type().(*types.Pointer); ptr {
				switch name {
				case "Len", "String", "Bytes", "Cap", "Front", "Back":
					return nil
				}
				return []int{0}
			}
		}
		if pkg == "container/heap" {
			return []int{0}
		}
	}
	return nil
}

// fullSliceResult: v is the direct result of a dependency accessor known to
// return a slice whose length equals its capacity.
func fullSliceResult(v ssa.Value) bool { return fullSliceName(v) != "" }

func fullSliceName(v ssa.Value) string {
	c, ok := v.(*ssa.Call)
	if !ok {
		return ""
	}
	f := c.Call.StaticCallee()
	if f == nil {
		return ""
	}
	switch f.String() {
	case "(github.com/apache/arrow-go/v18/arrow.Metadata).Keys", "(github.com/apache/arrow-go/v18/arrow.Metadata).Values":
		return f.String()
	}
	return ""
}

// heapKey names the heap location class an address denotes: a struct field
// (by struct type and index) or the elements of a container (by element type).
func heapLocKey(addr ssa.Value) string {
	switch a := addr.(type) {
	case *ssa.FieldAddr:
		if pt, ok := a.X.Type().Underlying().(*types.Pointer); ok {
			return fmt.Sprintf("field %s.%d", pt.Elem().String(), a.Field)
		}
	case *ssa.IndexAddr:
		switch t := a.X.Type().Underlying().(type) {
		case *types.Slice:
			return "elem " + t.Elem().String()
		case *types.Pointer:
			if at, ok := t.Elem().Underlying().(*types.Array); ok {
				return "elem " + at.Elem().String()
			}
		}
	}
	return ""
}

func (g *gwState) park(fn *ssa.Function, key string, l labelSet) {
	if key == "" || l == 0 {
		return
	}
	if l&labGlobal != 0 && !g.taint[key] {
		g.taint[key] = true
		g.grew = true
		if os.Getenv("GOVC_EFFDEBUG") != "" {
			fmt.Fprintf(os.Stderr, "TAINT %s in %s\n", key, fn)
		}
	}
	if pl := l &^ labGlobal; pl != 0 {
		m := g.parks[fn]
		if m == nil {
			m = map[string]labelSet{}
			g.parks[fn] = m
		}
		if m[key]|pl != m[key] {
			m[key] |= pl
			g.grew = true
		}
	}
}

func (g *gwState) analyse(fn *ssa.Function, collect *[]gwViolation) (sum fnSummary) {
	nparams := len(fn.Params)
	lab := map[ssa.Value]labelSet{}
	cell := map[*ssa.Alloc]labelSet{}
	tupLab := map[ssa.Value][]labelSet{}
	for i, p := range fn.Params {
		if pointerLike(p.Type()) && i < 60 {
			lab[p] = 1 << (1 + uint(i))
		}
	}
	for i, fv := range fn.FreeVars {
		if nparams+i < 60 {
			lab[fv] = 1 << (1 + uint(nparams+i))
		}
	}
	get := func(v ssa.Value) labelSet {
		switch x := v.(type) {
		case *ssa.Global:
			// the address of a package-level variable (of a package under analysis)
			if x.Pkg != nil && strings.HasPrefix(x.Pkg.Pkg.Path(), g.prefix) {
				return labGlobal
			}
			return 0
		}
		return lab[v]
	}
	isInit := fn.Name() == "init" || strings.HasPrefix(fn.Name(), "init#")
	report := func(pos token.Pos, what string) {
		if collect != nil && !isInit {
			*collect = append(*collect, gwViolation{pos, what})
		}
	}
	write := func(l labelSet, pos token.Pos, what string) {
		if l&labGlobal != 0 {
			report(pos, what)
		}
		if os.Getenv("GOVC_EFFDEBUG") != "" && l&^labGlobal != 0 && collect != nil {
			fmt.Fprintf(os.Stderr, "EFF %s writes through %s at %s: %s\n", fn, paramNames(fn, l), g.e.posOf(pos), what)
		}
		sum.writes |= l &^ labGlobal
	}
	calleeSum := func(cc *ssa.CallCommon) (s fnSummary, known bool, ext *ssa.Function) {
		if cc.IsInvoke() {
			id := cc.Method.Id() + "/" + cc.Method.Type().String()
			for _, f := range g.impls[id] {
				if fs := g.sums[f]; fs != nil {
					s.writes |= fs.writes
					for k := range s.returns {
						s.returns[k] |= fs.returns[k]
					}
				}
			}
			return s, true, nil
		}
		f := cc.StaticCallee()
		if f == nil {
			return s, false, nil
		}
		if fs := g.sums[f]; fs != nil {
			return *fs, true, nil
		}
		if o := f.Origin(); o != nil {
			if fs := g.sums[o]; fs != nil {
				return *fs, true, nil
			}
		}
		return s, false, f
	}
	for changed, rounds := true, 0; changed && rounds < 20; rounds++ {
		changed = false
		set := func(v ssa.Value, l labelSet) {
			if !pointerLike(v.Type()) {
				// addresses are always pointer-like; scalars carry nothing
				return
			}
			if lab[v]|l != lab[v] {
				lab[v] |= l
				changed = true
			}
		}
		for _, b := range fn.Blocks {
			for _, in := range b.Instrs {
				switch i := in.(type) {
				case *ssa.UnOp:
					if i.Op == token.MUL {
						if a, ok := i.X.(*ssa.Alloc); ok && !a.Heap {
							set(i, cell[a])
						} else if a, ok := i.X.(*ssa.Alloc); ok {
							set(i, cell[a])
						} else {
							l := get(i.X)
							if k := heapLocKey(i.X); k != "" && g.taint[k] {
								l |= labGlobal
							}
							set(i, l)
						}
					} else if i.Op == token.ARROW {
						set(i, get(i.X))
					}
				case *ssa.FieldAddr:
					set(i, get(i.X))
				case *ssa.IndexAddr:
					set(i, get(i.X))
				case *ssa.Field:
					set(i, get(i.X))
				case *ssa.Index:
					set(i, get(i.X))
				case *ssa.Slice:
					set(i, get(i.X))
				case *ssa.ChangeType:
					set(i, get(i.X))
				case *ssa.Convert:
					set(i, get(i.X))
				case *ssa.ChangeInterface:
					set(i, get(i.X))
				case *ssa.MakeInterface:
					set(i, get(i.X))
				case *ssa.SliceToArrayPointer:
					set(i, get(i.X))
				case *ssa.TypeAssert:
					set(i, get(i.X))
				case *ssa.Extract:
					if tl := tupLab[i.Tuple]; tl != nil && i.Index < len(tl) {
						set(i, tl[i.Index])
					} else {
						set(i, get(i.Tuple))
					}
				case *ssa.Lookup:
					l := get(i.X)
					if mt, ok := i.X.Type().Underlying().(*types.Map); ok && g.taint["elem "+mt.Elem().String()] {
						l |= labGlobal
					}
					set(i, l)
				case *ssa.Range:
					if lab[i]|get(i.X) != lab[i] {
						lab[i] |= get(i.X)
						changed = true
					}
				case *ssa.Next:
					if lab[i]|lab[i.Iter] != lab[i] {
						lab[i] |= lab[i.Iter]
						changed = true
					}
				case *ssa.Phi:
					for _, ed := range i.Edges {
						set(i, get(ed))
					}
				case *ssa.Select:
					for _, st := range i.States {
						if st.Dir == types.RecvOnly {
							if lab[i]|get(st.Chan) != lab[i] {
								lab[i] |= get(st.Chan)
								changed = true
							}
						}
					}
				case *ssa.MakeClosure:
					cf := i.Fn.(*ssa.Function)
					cs := g.sums[cf]
					for k, bnd := range i.Bindings {
						// free variables are addresses of the captured variables
						l := get(bnd)
						if a, ok := bnd.(*ssa.Alloc); ok {
							l |= cell[a]
						}
						if cs != nil && cs.writes&(1<<(1+uint(len(cf.Params)+k))) != 0 {
							// the closure writes through what the captured variable holds
							if a, ok := bnd.(*ssa.Alloc); ok {
								write(cell[a], i.Pos(), "a closure writes through package-level state captured in "+a.Comment)
							} else {
								write(l, i.Pos(), "a closure writes through captured package-level state")
							}
						}
					}
				case *ssa.Store:
					if a, ok := i.Addr.(*ssa.Alloc); ok {
						// a local variable: remember what it may hold
						l := get(i.Val)
						if cell[a]|l != cell[a] && pointerLike(i.Val.Type()) {
							cell[a] |= l
							changed = true
						}
					} else if _, ok := i.Addr.(*ssa.Global); ok {
						write(get(i.Addr), i.Pos(), "assignment to package-level variable "+i.Addr.Name())
					} else {
						write(get(i.Addr), i.Pos(), "store through an address derived from package-level state")
						if pointerLike(i.Val.Type()) {
							g.park(fn, heapLocKey(i.Addr), get(i.Val))
						}
					}
				case *ssa.MapUpdate:
					write(get(i.Map), i.Pos(), "update of a map that is package-level state")
					if mt, ok := i.Map.Type().Underlying().(*types.Map); ok && pointerLike(i.Value.Type()) {
						g.park(fn, "elem "+mt.Elem().String(), get(i.Value))
					}
				case *ssa.Send:
					// a channel held in package-level state is shared by design; not a write to state
				case *ssa.Return:
					for k, r := range i.Results {
						if k >= len(sum.returns) {
							k = len(sum.returns) - 1
						}
						sum.returns[k] |= get(r)
					}
				case ssa.CallInstruction:
					cc := i.Common()
					var args []ssa.Value
					if cc.IsInvoke() {
						args = append(args, cc.Value)
					}
					args = append(args, cc.Args...)
					if bi, ok := cc.Value.(*ssa.Builtin); ok {
						switch bi.Name() {
						case "append":
							if len(args) > 0 {
								if fullSliceResult(args[0]) {
									// [assumed] the dependency hands out a slice with len == cap:
									// append always reallocates, the result is fresh
									g.e.effectAssumptions["append to the result of "+fullSliceName(args[0])+" reallocates (the dependency builds these slices with len == cap)"] = true
								} else {
									write(get(args[0]), in.Pos(), "append to a slice that is package-level state (may write its backing array)")
									if v, ok := in.(ssa.Value); ok {
										set(v, get(args[0]))
									}
								}
							}
							if len(args) > 1 {
								if st, ok := args[0].Type().Underlying().(*types.Slice); ok && pointerLike(st.Elem()) {
									// appended values (a variadic slice built from them) become elements
									g.park(fn, "elem "+st.Elem().String(), get(args[1]))
								}
							}
						case "copy":
							if len(args) > 0 {
								write(get(args[0]), in.Pos(), "copy into a slice that is package-level state")
							}
						case "delete", "clear":
							if len(args) > 0 {
								write(get(args[0]), in.Pos(), bi.Name()+" on package-level state")
							}
						}
						continue
					}
					s, known, ext := calleeSum(cc)
					// values the callee parks in heap objects
					var callees []*ssa.Function
					if cc.IsInvoke() {
						callees = g.impls[cc.Method.Id()+"/"+cc.Method.Type().String()]
					} else if f := cc.StaticCallee(); f != nil {
						callees = []*ssa.Function{f}
						if o := f.Origin(); o != nil {
							callees = append(callees, o)
						}
					}
					for _, cf := range callees {
						for key, pl := range g.parks[cf] {
							for k, a := range args {
								if k < 60 && pl&(1<<(1+uint(k))) != 0 {
									g.park(fn, key, get(a))
								}
							}
						}
					}
					if known {
						for k, a := range args {
							if k < 60 && s.writes&(1<<(1+uint(k))) != 0 {
								write(get(a), in.Pos(), fmt.Sprintf("package-level state passed to %s, which writes through that argument", shortCallee(cc)))
							}
						}
						if v, ok := in.(ssa.Value); ok {
							resLab := func(k int) labelSet {
								if k >= len(s.returns) {
									k = len(s.returns) - 1
								}
								var l labelSet
								if s.returns[k]&labGlobal != 0 {
									l |= labGlobal
								}
								for j, a := range args {
									if j < 60 && s.returns[k]&(1<<(1+uint(j))) != 0 {
										l |= get(a)
									}
								}
								return l
							}
							if tup, isTup := v.Type().(*types.Tuple); isTup && tup.Len() > 0 {
								if tupLab[v] == nil {
									tupLab[v] = make([]labelSet, tup.Len())
								}
								for k := 0; k < tup.Len(); k++ {
									if l := resLab(k); tupLab[v][k]|l != tupLab[v][k] {
										tupLab[v][k] |= l
										changed = true
									}
								}
							} else if l := resLab(0); l != 0 {
								set(v, l)
							}
						}
					} else if ext != nil {
						for _, k := range externalWriter(ext) {
							if k < len(args) {
								write(get(args[k]), in.Pos(), "package-level state passed to "+ext.String()+", which writes through it")
							}
						}
						// results of dependency calls on package-level values (schema.Field(i), err.Error())
						// are values of the dependency: treated as package-level state as well
						if v, ok := in.(ssa.Value); ok {
							var l labelSet
							for _, a := range args {
								l |= get(a)
							}
							if l != 0 {
								if tup, isTup := v.Type().(*types.Tuple); isTup && tup.Len() > 0 {
									if lab[v]|l != lab[v] {
										lab[v] |= l
										changed = true
									}
								} else {
									set(v, l)
								}
							}
						}
					} else {
						// dynamic call of a function value: closures created in this function
						// are accounted for at MakeClosure; others are assumed not to write
					}
				}
			}
		}
	}
	return sum
}

func (e *Engine) globalWriteUnits(d EffectDirective, only func(string) bool) []*Unit {
	fns := e.funcsUnder(d.Prefix)
	g := &gwState{e: e, sums: map[*ssa.Function]*fnSummary{}, impls: map[string][]*ssa.Function{}, prefix: d.Prefix, taint: map[string]bool{}, parks: map[*ssa.Function]map[string]labelSet{}}
	for _, f := range fns {
		g.sums[f] = &fnSummary{}
		if f.Signature.Recv() != nil {
			if obj, ok := f.Object().(*types.Func); ok {
				id := obj.Id() + "/" + types.NewSignatureType(nil, nil, nil, f.Signature.Params(), f.Signature.Results(), f.Signature.Variadic()).String()
				g.impls[id] = append(g.impls[id], f)
			}
		}
	}
	for changed, rounds := true, 0; changed && rounds < 50; rounds++ {
		changed = false
		if g.grew {
			changed = true
			g.grew = false
		}
		for _, f := range fns {
			s := g.analyse(f, nil)
			if s != *g.sums[f] {
				n := fnSummary{writes: g.sums[f].writes | s.writes}
				for k := range n.returns {
					n.returns[k] = g.sums[f].returns[k] | s.returns[k]
				}
				if n != *g.sums[f] {
					*g.sums[f] = n
					changed = true
				}
			}
		}
	}
	var units []*Unit
	for _, f := range fns {
		if isTestOrContractFile(e, f) || f.Synthetic != "" && f.Name() != "init" {
			continue
		}
		if f.Name() == "init" || strings.HasPrefix(f.Name(), "init#") {
			continue
		}
		if only != nil && !only(e.unitName(f)) {
			continue
		}
		var vs []gwViolation
		g.analyse(f, &vs)
		u := e.effectUnit(f, d)
		why := ""
		seen := map[string]bool{}
		for _, v := range vs {
			s := e.posOf(v.pos) + ": " + v.what
			if !seen[s] {
				seen[s] = true
				why += s + "\n"
			}
		}
		desc := "writes no package-level state"
		if s := g.sums[f]; s != nil && s.writes != 0 {
			desc += fmt.Sprintf(" (inferred frame: writes through parameters %s)", paramNames(f, s.writes))
		}
		u.effectObl("frame:no-package-state-write", e.posOf(f.Pos()), desc, len(vs) == 0, why)
		units = append(units, u)
	}
	return units
}

func paramNames(f *ssa.Function, l labelSet) string {
	var ns []string
	for i, p := range f.Params {
		if i < 60 && l&(1<<(1+uint(i))) != 0 {
			ns = append(ns, p.Name())
		}
	}
	for i, fv := range f.FreeVars {
		k := len(f.Params) + i
		if k < 60 && l&(1<<(1+uint(k))) != 0 {
			ns = append(ns, "captured "+fv.Name())
		}
	}
	return strings.Join(ns, ", ")
}


// distinctInitUnits: see the header (effects ... : distinctinit Type.field).
func (e *Engine) distinctInitUnits(d EffectDirective, only func(string) bool) []*Unit {
	parts := strings.SplitN(d.Prefix, ".", 2)
	if len(parts) != 2 {
		e.fatalf("%s: distinctinit <Type>.<field>", d.Src)
	}
	var initFn *ssa.Function
	for _, p := range e.prog.AllPackages() {
		if p.Pkg.Path() == d.PkgPath {
			initFn = p.Func("init")
		}
	}
	if initFn == nil {
		e.fatalf("%s: package initialiser of %s not found", d.Src, d.PkgPath)
	}
	u := e.effectUnit(initFn, d)
	if only != nil && !only(u.Name) {
		return nil
	}
	type st struct {
		pos token.Pos
		val string
		ok  bool
	}
	var stores []st
	for _, b := range initFn.Blocks {
		for _, in := range b.Instrs {
			s, ok := in.(*ssa.Store)
			if !ok {
				continue
			}
			fa, ok := s.Addr.(*ssa.FieldAddr)
			if !ok {
				continue
			}
			pt, ok := fa.X.Type().Underlying().(*types.Pointer)
			if !ok {
				continue
			}
			named, ok := types.Unalias(pt.Elem()).(*types.Named)
			if !ok || named.Obj().Name() != parts[0] || named.Obj().Pkg() == nil || named.Obj().Pkg().Path() != d.PkgPath {
				continue
			}
			stt, ok := named.Underlying().(*types.Struct)
			if !ok || fa.Field >= stt.NumFields() || stt.Field(fa.Field).Name() != parts[1] {
				continue
			}
			c, isConst := s.Val.(*ssa.Const)
			v := ""
			if isConst && c.Value != nil {
				v = c.Value.ExactString()
			}
			stores = append(stores, st{s.Pos(), v, isConst && c.Value != nil})
		}
	}
	if len(stores) < 2 {
		u.effectObl("init:"+d.Prefix+":table", e.posOf(initFn.Pos()), "the initialiser fills a table of "+d.Prefix, false, fmt.Sprintf("only %d stores into %s found in the package initialiser", len(stores), d.Prefix))
		return []*Unit{u}
	}
	for i, a := range stores {
		why := ""
		okk := a.ok
		if !a.ok {
			why = "the stored value is not a constant"
		}
		for j, b := range stores {
			if i != j && a.ok && b.ok && a.val == b.val {
				okk = false
				why = fmt.Sprintf("the same constant %s is stored at %s", a.val, e.posOf(b.pos))
			}
		}
		u.effectObl(fmt.Sprintf("init:%s#%d", d.Prefix, i), e.posOf(a.pos), "the constant stored into "+d.Prefix+" here differs from every other one the initialiser stores into that field", okk, why)
	}
	return []*Unit{u}
}


// threadOwnedUnits: see the header (effects ... : threadowned Type.f1,f2@entry).
func (e *Engine) threadOwnedUnits(d EffectDirective, only func(string) bool) []*Unit {
	spec := d.Prefix
	at := strings.Index(spec, "@")
	dot := strings.Index(spec, ".")
	if at < 0 || dot < 0 || dot > at {
		e.fatalf("%s: threadowned <Type>.<f1>,<f2>@<entry method>", d.Src)
	}
	typeName, entryName := spec[:dot], spec[at+1:]
	owned := map[string]bool{}
	for _, f := range strings.Split(spec[dot+1:at], ",") {
		owned[strings.TrimSpace(f)] = true
	}
	var fns []*ssa.Function
	for _, f := range e.funcsUnder(d.PkgPath) {
		if fnPkgPath(f) == d.PkgPath && !isTestOrContractFile(e, f) {
			fns = append(fns, f)
		}
	}
	inPkg := map[*ssa.Function]bool{}
	for _, f := range fns {
		inPkg[f] = true
	}
	isOwnedType := func(t types.Type) bool {
		pt, ok := t.Underlying().(*types.Pointer)
		if !ok {
			return false
		}
		n, ok := types.Unalias(pt.Elem()).(*types.Named)
		return ok && n.Obj().Name() == typeName && n.Obj().Pkg() != nil && n.Obj().Pkg().Path() == d.PkgPath
	}
	var entry *ssa.Function
	goTarget := map[*ssa.Function]bool{}
	callers := map[*ssa.Function]map[*ssa.Function]bool{}
	addCaller := func(g, f *ssa.Function) {
		if !inPkg[g] {
			return
		}
		if callers[g] == nil {
			callers[g] = map[*ssa.Function]bool{}
		}
		callers[g][f] = true
	}
	for _, f := range fns {
		if f.Signature.Recv() != nil && isOwnedType(f.Signature.Recv().Type()) && f.Name() == entryName {
			entry = f
		}
		for _, b := range f.Blocks {
			for _, in := range b.Instrs {
				switch v := in.(type) {
				case *ssa.Go:
					if g := v.Call.StaticCallee(); g != nil {
						goTarget[g] = true
					} else if mc, ok := v.Call.Value.(*ssa.MakeClosure); ok {
						if g, ok := mc.Fn.(*ssa.Function); ok {
							goTarget[g] = true
						}
					}
				case *ssa.Call:
					if g := v.Call.StaticCallee(); g != nil {
						addCaller(g, f)
					}
				case *ssa.Defer:
					if g := v.Call.StaticCallee(); g != nil {
						addCaller(g, f)
					}
				case *ssa.MakeClosure:
					g, ok := v.Fn.(*ssa.Function)
					if !ok {
						continue
					}
					startedWithGo := false
					if refs := v.Referrers(); refs != nil {
						for _, r := range *refs {
							if gi, ok := r.(*ssa.Go); ok && gi.Call.Value == ssa.Value(v) {
								startedWithGo = true
							}
						}
					}
					if !startedWithGo {
						addCaller(g, f)
					}
				}
			}
		}
	}
	if entry == nil {
		e.fatalf("%s: entry method %s.%s not found", d.Src, typeName, entryName)
	}
	// greatest fixed point: the functions that run only on the owner goroutine
	own := map[*ssa.Function]bool{}
	for _, f := range fns {
		own[f] = true
	}
	for changed := true; changed; {
		changed = false
		for _, f := range fns {
			if !own[f] || f == entry {
				continue
			}
			ok := !goTarget[f] && len(callers[f]) > 0
			for c := range callers[f] {
				if !own[c] {
					ok = false
				}
			}
			if !ok {
				own[f] = false
				changed = true
			}
		}
	}
	var units []*Unit
	for _, f := range fns {
		var u *Unit
		k := 0
		for _, b := range f.Blocks {
			for _, in := range b.Instrs {
				fa, ok := in.(*ssa.FieldAddr)
				if !ok || !isOwnedType(fa.X.Type()) {
					continue
				}
				st := fa.X.Type().Underlying().(*types.Pointer).Elem().Underlying().(*types.Struct)
				fname := st.Field(fa.Field).Name()
				if !owned[fname] {
					continue
				}
				if _, fresh := fa.X.(*ssa.Alloc); fresh {
					continue // the object is being constructed and is not shared yet
				}
				if u == nil {
					u = e.effectUnit(f, d)
					if only != nil && !only(u.Name) {
						u = nil
						break
					}
				}
				why := ""
				if !own[f] {
					switch {
					case goTarget[f]:
						why = "the function is started with a go statement"
					case len(callers[f]) == 0:
						why = "the function can be called from any goroutine (no caller inside the package)"
					default:
						for c := range callers[f] {
							if !own[c] {
								why = "it is called by " + e.funcKey(c) + ", which does not run only on the owner goroutine"
							}
						}
					}
				}
				u.effectObl(fmt.Sprintf("owned:%s.%s#%d", typeName, fname, k), e.posOf(fa.Pos()), "field "+typeName+"."+fname+" is accessed only on the goroutine of "+typeName+"."+entryName, own[f], why)
				k++
			}
		}
		if u != nil {
			units = append(units, u)
		}
	}
	return units
}
