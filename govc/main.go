package main

import (
	"encoding/json"
	"flag"
	"fmt"
	"go/types"
	"os"
	"path/filepath"
	"regexp"
	"runtime"
	"sort"
	"strings"
	"time"

	"golang.org/x/tools/go/ssa"
)

type PropConfig struct {
	Dir      string   `json:"dir"`
	Patterns []string `json:"patterns"`
}

type Result struct {
	Property    string        `json:"property"`
	Tier        string        `json:"tier"`
	Units       []UnitResult  `json:"units"`
	Obligations []*Obligation `json:"obligations"`
	Assumed     []string      `json:"assumed_contracts_used"`
	Abstracted  []string      `json:"abstracted"`
	Notes       []string      `json:"notes"`
	Errors      []string      `json:"errors"`
	SolverTimeS float64       `json:"solver_time_s"`
	WallS       float64       `json:"wall_s"`
	LoadS       float64       `json:"load_s"`
	Trusted     []string      `json:"trusted_functions"`
	Samples     []string      `json:"samples"`
	Canaries    []string      `json:"canaries_failed_as_expected"`
}

type UnitResult struct {
	Name        string   `json:"name"`
	Source      string   `json:"contract_src"`
	Obligations int      `json:"obligations"`
	Discharged  int      `json:"discharged"`
	Error       string   `json:"error,omitempty"`
	Props       []string `json:"props"`
	Expect      string   `json:"expect,omitempty"`
}

func main() {
	if len(os.Args) < 2 {
		fmt.Fprintln(os.Stderr, "usage: govc check|dump ...")
		os.Exit(2)
	}
	switch os.Args[1] {
	case "check":
		os.Exit(cmdCheck(os.Args[2:]))
	default:
		fmt.Fprintln(os.Stderr, "unknown command")
		os.Exit(2)
	}
}

func hasProp(ps []string, p string) bool {
	for _, q := range ps {
		if q == p {
			return true
		}
	}
	return false
}

func cmdCheck(argv []string) int {
	fs := flag.NewFlagSet("check", flag.ExitOnError)
	prop := fs.String("prop", "", "property id")
	tier := fs.String("tier", "quick", "quick|thorough")
	cfgPath := fs.String("config", "/verif/contracts/props.json", "property config")
	assumed := fs.String("assumed", "/verif/contracts/assumed", "assumed contracts dir")
	out := fs.String("result", "", "result json path")
	only := fs.String("only", "", "regexp: only units matching")
	keep := fs.String("keep", "", "keep SMT files in this directory")
	dirFlag := fs.String("dir", "", "override module dir")
	timeout := fs.Int("timeout", 0, "per-solver timeout (s)")
	verbose := fs.Bool("v", false, "verbose")
	knownPath := fs.String("known", "", "JSON list of obligation names recorded as open known findings (short timeout)")
	skipPath := fs.String("skip", "", "json list of sweep obligations that are undecided on the unchanged tree (not solved, not claimed)")
	fs.Parse(argv)
	t0 := time.Now()
	cfgs := map[string]PropConfig{}
	data, err := os.ReadFile(*cfgPath)
	if err != nil {
		fmt.Fprintln(os.Stderr, err)
		return 2
	}
	if err := json.Unmarshal(data, &cfgs); err != nil {
		fmt.Fprintln(os.Stderr, err)
		return 2
	}
	pc, ok := cfgs[*prop]
	if !ok {
		fmt.Fprintf(os.Stderr, "no config for property %s\n", *prop)
		return 2
	}
	if *dirFlag != "" {
		pc.Dir = *dirFlag
	}
	res := &Result{Property: *prop, Tier: *tier}
	eng, err := loadEngine(pc.Dir, pc.Patterns, *assumed)
	if err != nil {
		res.Errors = append(res.Errors, "load: "+err.Error())
		writeResult(*out, res)
		fmt.Fprintln(os.Stderr, "load error:", err)
		return 3
	}
	res.LoadS = time.Since(t0).Seconds()
	if pat := os.Getenv("GOVC_LISTFN"); pat != "" {
		for k := range eng.funcIndex {
			if strings.Contains(k, pat) {
				fmt.Fprintln(os.Stderr, "FN", k)
			}
		}
	}
	var onlyRe *regexp.Regexp
	if *only != "" {
		onlyRe = regexp.MustCompile(*only)
	}
	// collect units
	var units []*Unit
	keys := append([]string{}, eng.db.Order...)
	for _, k := range keys {
		ct := eng.db.Funcs[k]
		if ct.Assumed {
			if hasProp(ct.Props, *prop) {
				res.Trusted = append(res.Trusted, "assumed in-repo contract: "+ct.Kind+" "+ct.Key+" ("+ct.Src+")")
			}
			continue
		}
		if !hasProp(ct.Props, *prop) && *prop != "ALL" {
			continue
		}
		if ct.Trusted {
			res.Trusted = append(res.Trusted, ct.Key+" ("+ct.Src+")")
			continue
		}
		if ct.Kind == "iface" {
			if ct.Assumed {
				continue
			}
			for _, iu := range eng.implUnits(ct) {
				if onlyRe != nil && !onlyRe.MatchString(iu.name) {
					continue
				}
				u := eng.verifyUnit(iu.fn, iu.ct, iu.alias, "")
				u.Impl = ct.Key
				units = append(units, u)
			}
			continue
		}
		fn := eng.funcByKey(ct.PkgPath, ct.Key)
		if fn == nil {
			res.Errors = append(res.Errors, fmt.Sprintf("%s: contract key %q does not resolve to a function in %s", ct.Src, ct.Key, ct.PkgPath))
			continue
		}
		if onlyRe != nil && !onlyRe.MatchString(eng.unitName(fn)) {
			continue
		}
		if *verbose {
			fmt.Fprintf(os.Stderr, "unit %s\n", eng.unitName(fn))
		}
		units = append(units, eng.verifyUnit(fn, ct, nil, ""))
	}
	// zero-annotation no-panic sweeps
	for _, sw := range eng.db.Sweeps {
		if !hasProp(sw.Props, *prop) && *prop != "ALL" {
			continue
		}
		for _, su := range eng.sweepUnits(sw) {
			if onlyRe != nil && !onlyRe.MatchString(eng.unitName(su.fn)) {
				continue
			}
			if *verbose {
				fmt.Fprintf(os.Stderr, "sweep unit %s\n", eng.unitName(su.fn))
			}
			units = append(units, eng.verifyUnit(su.fn, su.ct, nil, ""))
		}
	}
	// frame / effect obligations decided on the SSA form
	for _, d := range eng.db.Effects {
		if !hasProp(d.Props, *prop) && *prop != "ALL" {
			continue
		}
		var onlyFn func(string) bool
		if onlyRe != nil {
			onlyFn = onlyRe.MatchString
		}
		units = append(units, eng.effectUnits(d, onlyFn)...)
		switch d.Kind {
		case "noglobalwrites":
			eng.effectAssumptions["frame analysis (noglobalwrites): memory reachable from a function's parameters is package-level state only if it was derived from a package-level variable in a caller and handed in through a parameter the inferred frame records (pointers parked in heap objects are not followed)"] = true
			eng.effectAssumptions["frame analysis (noglobalwrites): functions of dependencies do not write through their arguments, except the listed writers (sort.*, slices.Sort*, sync.* other than mutexes, sync/atomic, container/*, bytes/strings builders, math/rand; append/copy/delete/clear)"] = true
			eng.effectAssumptions["frame analysis (noglobalwrites): function values that are not function literals of the calling function are assumed not to write package-level state"] = true
		case "threadowned":
			eng.effectAssumptions["goroutine ownership ("+d.Prefix+"): the entry method is started once per object; a function literal that is not started with go runs on the goroutine that created it; accesses from other packages do not exist (the fields are unexported)"] = true
		case "distinctinit":
			eng.effectAssumptions["initialiser table ("+d.Prefix+"): the fields are written by the package initialiser only (the C16 frame check proves that no other function writes package-level state)"] = true
		case "readonly":
			eng.effectAssumptions["effect analysis (readonly "+d.Prefix+"): a function of the dependency modifies a value only after calling its AssertMutable guard (true of the generated pdata code); the classification follows static calls inside the dependency"] = true
		}
	}
	scratch, err := os.MkdirTemp("", "govc-")
	if err != nil {
		fmt.Fprintln(os.Stderr, err)
		return 2
	}
	if *keep != "" {
		scratch = *keep
		os.MkdirAll(scratch, 0o755)
	} else {
		defer os.RemoveAll(scratch)
	}
	// several packages share a package name (arrow, otlp): a unit whose short
	// name is already taken is renamed with its parent directory
	taken := map[string]bool{}
	for _, u := range units {
		if !taken[u.Name] {
			taken[u.Name] = true
			continue
		}
		path := fnPkgPath(u.Fn)
		parts := strings.Split(path, "/")
		nn := u.Name
		if len(parts) >= 2 {
			nn = parts[len(parts)-2] + "/" + u.Name
		}
		for k := 2; taken[nn]; k++ {
			nn = fmt.Sprintf("%s~%d", u.Name, k)
		}
		taken[nn] = true
		if u.VC != nil {
			for _, o := range u.VC.obligations {
				if strings.HasPrefix(o.Name, u.Name) {
					o.Name = nn + o.Name[len(u.Name):]
				}
				o.Func = nn
			}
		}
		u.Name = nn
	}
	var obls []*Obligation
	assumedSet := map[string]bool{}
	for _, u := range units {
		ur := UnitResult{Name: u.Name, Source: u.Ct.Src, Props: u.Props, Expect: u.Ct.Expect}
		if u.Err != "" {
			ur.Error = u.Err
			res.Errors = append(res.Errors, u.Name+": "+u.Err)
		} else {
			for _, o := range u.VC.obligations {
				o.Props = u.Props
				o.Unit = u.Name
				o.Sweep = u.Ct.Sweep
				if u.Ct.Expect == "fail" {
					o.Expect = "canary"
				}
				obls = append(obls, o)
			}
			for a := range u.VC.usedAssumed {
				assumedSet[a] = true
			}
			res.Abstracted = append(res.Abstracted, u.VC.abstracted...)
			for _, n := range u.VC.notes {
				res.Notes = append(res.Notes, u.Name+": "+n)
			}
		}
		res.Units = append(res.Units, ur)
	}
	to := 10
	if *tier == "thorough" {
		to = 60
	}
	if *timeout > 0 {
		to = *timeout
	}
	workers := runtime.NumCPU() - 2
	if workers < 2 {
		workers = 2
	}
	skip := map[string]bool{}
	if *skipPath != "" {
		var names []string
		if data, err := os.ReadFile(*skipPath); err == nil {
			json.Unmarshal(data, &names)
		}
		for _, n := range names {
			skip[n] = true
		}
	}
	// obligations recorded as open known findings: they are expected to fail; one solver, short timeout
	if *knownPath != "" {
		var names []string
		if data, err := os.ReadFile(*knownPath); err == nil {
			json.Unmarshal(data, &names)
		}
		kn := map[string]bool{}
		for _, n := range names {
			kn[n] = true
		}
		for _, o := range obls {
			if kn[o.Name] {
				o.Quick = true
			}
		}
	}
	var toSolve []*Obligation
	for _, o := range obls {
		if o.Sweep && skip[o.Name] {
			o.Status = "undecided-baseline"
			continue
		}
		toSolve = append(toSolve, o)
	}
	solveAll(toSolve, scratch, to, workers, *tier == "thorough")
	// per-unit tallies; canary units must have at least one failing obligation
	byUnit := map[string][]*Obligation{}
	for _, o := range obls {
		byUnit[o.Unit] = append(byUnit[o.Unit], o)
		res.SolverTimeS += o.TimeS
	}
	var final []*Obligation
	for i := range res.Units {
		ur := &res.Units[i]
		os_ := byUnit[ur.Name]
		if ur.Expect == "fail" {
			failed := false
			for _, o := range os_ {
				if o.Kind != "cover" && o.Status != "discharged" {
					failed = true
				}
			}
			if failed {
				res.Canaries = append(res.Canaries, ur.Name)
			} else if ur.Error == "" {
				res.Errors = append(res.Errors, fmt.Sprintf("canary %s did not fail: the engine accepts a false contract", ur.Name))
			}
			continue
		}
		for _, o := range os_ {
			ur.Obligations++
			if o.Status == "discharged" {
				ur.Discharged++
			}
			final = append(final, o)
		}
	}
	res.Obligations = final
	for a := range eng.effectAssumptions {
		assumedSet[a] = true
	}
	res.Assumed = sortedKeys(assumedSet)
	sort.Strings(res.Abstracted)
	res.Abstracted = uniq(res.Abstracted)
	// samples: a few obligations written out
	for i, o := range final {
		if i%max(1, len(final)/4) == 0 && len(res.Samples) < 5 {
			res.Samples = append(res.Samples, fmt.Sprintf("%s [%s]: %s -- refutation query: %s", o.Name, o.Status, o.Desc, truncate(o.goal, 400)))
		}
	}
	// replay files for failures
	for _, o := range final {
		if o.Status != "discharged" && *keep == "" {
			o.SMTFile = ""
		}
	}
	res.WallS = time.Since(t0).Seconds()
	writeResult(*out, res)
	nfail := 0
	for _, o := range final {
		if o.Status == "undecided-baseline" {
			continue
		}
		if o.Status != "discharged" {
			nfail++
			fmt.Printf("FAILED %s [%s] %s :: %s\n", o.Name, o.Status, o.Pos, o.Desc)
			if *verbose {
				fmt.Println(o.Output)
			}
		}
	}
	for _, e := range res.Errors {
		fmt.Printf("ERROR %s\n", e)
	}
	fmt.Printf("govc: property %s: %d units, %d obligations, %d discharged, %d failed, %d errors, load %.1fs, solver %.1fs, wall %.1fs\n",
		*prop, len(res.Units), len(final), len(final)-nfail, nfail, len(res.Errors), res.LoadS, res.SolverTimeS, res.WallS)
	if len(res.Errors) > 0 {
		return 3
	}
	if nfail > 0 {
		return 1
	}
	return 0
}

func truncate(s string, n int) string {
	if len(s) > n {
		return s[:n] + "..."
	}
	return s
}

func uniq(s []string) []string {
	var out []string
	for i, v := range s {
		if i == 0 || v != s[i-1] {
			out = append(out, v)
		}
	}
	return out
}

func writeResult(path string, r *Result) {
	if path == "" {
		return
	}
	os.MkdirAll(filepath.Dir(path), 0o755)
	data, _ := json.MarshalIndent(r, "", " ")
	os.WriteFile(path, data, 0o644)
}

type sweepUnit struct {
	fn *ssa.Function
	ct *FuncContract
}

// sweepUnits synthesises `nopanic` contracts (parameters non-nil) for every
// function declared in the listed files that has no explicit contract.
func (e *Engine) sweepUnits(sw Sweep) []sweepUnit {
	files := map[string]bool{}
	for _, f := range sw.Files {
		files[f] = true
	}
	var fns []*ssa.Function
	for _, fn := range e.funcIndex {
		if fnPkgPath(fn) != sw.PkgPath || len(fn.Blocks) == 0 || fn.Parent() != nil || fn.Synthetic != "" {
			continue
		}
		if fn.TypeParams().Len() > 0 && len(fn.TypeArgs()) == 0 {
			continue
		}
		pos := fn.Pos()
		if o := fn.Origin(); o != nil {
			pos = o.Pos()
		}
		if !pos.IsValid() || !files[filepath.Base(e.fset.Position(pos).Filename)] {
			continue
		}
		if ct, has := e.db.Funcs[e.fullKey(fn)]; has {
			// an explicit contract replaces the synthesised one only for the properties it is tagged with
			covered := false
			for _, p := range sw.Props {
				if hasProp(ct.Props, p) {
					covered = true
				}
			}
			if covered {
				continue
			}
		}
		fns = append(fns, fn)
	}
	sort.Slice(fns, func(i, j int) bool { return e.fullKey(fns[i]) < e.fullKey(fns[j]) })
	var out []sweepUnit
	for _, fn := range fns {
		ct := &FuncContract{Key: e.funcKey(fn), PkgPath: sw.PkgPath, Kind: "func", Loops: map[int]*LoopSpec{}, Src: sw.Src, NoPanic: true, Props: sw.Props, Sweep: true, UnboxNonNil: sw.UnboxNonNil}
		for i, p := range fn.Params {
			if p.Name() == "" || p.Name() == "_" {
				continue
			}
			switch p.Type().Underlying().(type) {
			case *types.Pointer, *types.Interface, *types.Map, *types.Signature, *types.Chan:
				_ = i
				ct.Requires = append(ct.Requires, Clause{Text: p.Name() + " != nil", Src: sw.Src})
			}
		}
		out = append(out, sweepUnit{fn, ct})
	}
	return out
}

type implUnit struct {
	name  string
	fn    *ssa.Function
	ct    *FuncContract
	alias []string
}

// implUnits: every concrete type of the interface's package that implements
// the interface gets the obligation to satisfy the interface method contract.
func (e *Engine) implUnits(ct *FuncContract) []implUnit {
	parts := strings.SplitN(ct.Key, ".", 2)
	if len(parts) != 2 {
		e.fatalf("%s: bad iface key %q", ct.Src, ct.Key)
	}
	tp := e.typesPkg(ct.PkgPath)
	obj := tp.Scope().Lookup(parts[0])
	if obj == nil {
		return nil
	}
	iface, ok := obj.Type().Underlying().(*types.Interface)
	if !ok {
		return nil
	}
	var out []implUnit
	for _, n := range tp.Scope().Names() {
		tn, ok := tp.Scope().Lookup(n).(*types.TypeName)
		if !ok || tn.IsAlias() {
			continue
		}
		if _, isIface := tn.Type().Underlying().(*types.Interface); isIface {
			continue
		}
		for _, rt := range []types.Type{tn.Type(), types.NewPointer(tn.Type())} {
			if !types.Implements(rt, iface) {
				continue
			}
			ms := e.prog.MethodSets.MethodSet(rt)
			sel := ms.Lookup(tp, parts[1])
			if sel == nil {
				continue
			}
			fn := e.prog.MethodValue(sel)
			if fn == nil || len(fn.Blocks) == 0 || fn.Synthetic != "" {
				continue
			}
			// alias: iface parameter names bound positionally
			msig := iface.NumMethods()
			_ = msig
			var isig *types.Signature
			for i := 0; i < iface.NumMethods(); i++ {
				if iface.Method(i).Name() == parts[1] {
					isig = iface.Method(i).Type().(*types.Signature)
				}
			}
			alias := []string{"self"}
			for i := 0; i < isig.Params().Len(); i++ {
				nm := isig.Params().At(i).Name()
				if nm == "" || nm == "_" {
					nm = fmt.Sprintf("p%d", i)
				}
				alias = append(alias, nm)
			}
			c2 := *ct
			c2.Kind = "func"
			c2.Key = e.funcKey(fn)
			// merge with the implementation's own contract (loop invariants, nopanic ...)
			if own := e.db.Funcs[e.fullKey(fn)]; own != nil {
				c2.Loops = own.Loops
				c2.NoPanic = own.NoPanic
				c2.Ats = own.Ats
				c2.Ghost = own.Ghost
			}
			out = append(out, implUnit{name: e.unitName(fn), fn: fn, ct: &c2, alias: alias})
			break
		}
	}
	return out
}
