package main

import (
	"fmt"
	"go/ast"
	"go/constant"
	"go/parser"
	"go/token"
	"go/types"
	"math/big"
	"sort"
	"strings"

	"golang.org/x/tools/go/ssa"
)

// ghost vocabulary: declared once, type-checked, inserted into every
// synthetic contract scope.  Interpreted by the translator below.
const ghostSrc = `package ghost
type Z int
func old[T any](x T) T { return x }
func forall(lo, hi int, p func(i int) bool) bool { return true }
func exists(lo, hi int, p func(i int) bool) bool { return true }
func all[T any](p func(x T) bool) bool { return true }
func sameblock[T any](a, b []T) bool { return true }
func sameorigin[T any](a, b []T) bool { return true }
func sliceoff[T any](a []T) int { return 0 }
func sameblock2[T any, U any](a []T, b []U) bool { return true }
func oldelem[T any](s []T, i int) T { var z T; return z }
func implies(a, b bool) bool { return true }
func iff(a, b bool) bool { return true }
func cond[T any](c bool, a, b T) T { return a }
func presum(f func(j int) int, k int) int { return 0 }
func fresh(p any) bool { return true }
func typeis[T any](x any) bool { return true }
func haskey[K comparable, V any](m map[K]V, k K) bool { return true }
func card[K comparable, V any](m map[K]V) int { return 0 }
func nonnil(p any) bool { return true }
func isnil(p any) bool { return true }
func unbox[T any](x any) T { var z T; return z }
func allocated(p any) bool { return true }
func same[T any](a, b T) bool { return true }
`

type scopeVar struct {
	name string
	typ  types.Type
}

type binding struct {
	val  Val          // direct value
	loc  *Loc         // or: a location to load from (current state)
	typ  types.Type
	oldv *Val // value inside old(): entry value for parameters
}

// EvalCtx is the environment in which a contract expression is translated.
type EvalCtx struct {
	x       *Exec
	fr      *Frame // frame used for inline evaluation and naming
	st      *State
	old     *State
	pkgPath string
	vars    map[string]*binding
	order   []scopeVar
	info    *types.Info
	bound   map[types.Object]string // quantified variables
	inOld   bool
	src     string
	math    bool
	resultAlloc string // allocation counter before the call (for fresh())
}

type synthPkg struct {
	pkg     *types.Package
	file    *types.Scope
	real    *types.Package
	nextPos token.Pos
}

func (e *Engine) ghostPackage() *types.Package {
	if e.ghostPkg != nil {
		return e.ghostPkg
	}
	f, err := parser.ParseFile(e.fset, "ghost.go", ghostSrc, 0)
	if err != nil {
		panic(err)
	}
	conf := types.Config{}
	p, err := conf.Check("ghost", e.fset, []*ast.File{f}, nil)
	if err != nil {
		panic(err)
	}
	e.ghostPkg = p
	return p
}

func (e *Engine) synth(pkgPath string) *synthPkg {
	if sp, ok := e.synths[pkgPath]; ok {
		return sp
	}
	real := e.typesPkg(pkgPath)
	if real == nil {
		e.fatalf("contract scope: package %s not loaded", pkgPath)
	}
	sp := &synthPkg{real: real}
	sp.pkg = types.NewPackage(real.Path(), real.Name())
	if e.dummyFile == nil {
		e.dummyFile = e.fset.AddFile("contracts", -1, 1<<28)
		e.dummyNext = token.Pos(e.dummyFile.Base())
	}
	base := e.dummyNext
	e.dummyNext += 1 << 22
	sp.file = types.NewScope(sp.pkg.Scope(), base, base+(1<<22), "contracts file scope")
	sp.nextPos = base + 1
	sc := sp.pkg.Scope()
	g := e.ghostPackage()
	for _, n := range g.Scope().Names() {
		sc.Insert(g.Scope().Lookup(n))
	}
	for _, n := range real.Scope().Names() {
		sc.Insert(real.Scope().Lookup(n))
	}
	// imports, with the names used in the package's files
	if lp := e.loadedPkg(pkgPath); lp != nil {
		for _, f := range lp.Syntax {
			for _, is := range f.Imports {
				if obj, ok := lp.TypesInfo.Implicits[is].(*types.PkgName); ok {
					sc.Insert(types.NewPkgName(token.NoPos, sp.pkg, obj.Name(), obj.Imported()))
				} else if is.Name != nil {
					if obj, ok := lp.TypesInfo.Defs[is.Name].(*types.PkgName); ok {
						sc.Insert(types.NewPkgName(token.NoPos, sp.pkg, obj.Name(), obj.Imported()))
					}
				}
			}
		}
	}
	for _, imp := range real.Imports() {
		sc.Insert(types.NewPkgName(token.NoPos, sp.pkg, imp.Name(), imp))
	}
	e.synths[pkgPath] = sp
	// preds and ufs declared for this package
	var names []string
	for k := range e.db.Preds {
		names = append(names, k)
	}
	sort.Strings(names)
	for _, k := range names {
		p := e.db.Preds[k]
		if p.PkgPath != pkgPath {
			// predicates of imported packages are visible as <pkgname>_<pred>
			if e.imports(pkgPath, p.PkgPath) {
				osp := e.synth(p.PkgPath)
				if o := osp.pkg.Scope().Lookup(p.Name); o != nil {
					if f, ok := o.(*types.Func); ok {
						sc.Insert(types.NewFunc(token.NoPos, sp.pkg, osp.real.Name()+"_"+p.Name, f.Type().(*types.Signature)))
					}
				}
			}
			continue
		}
		rt := p.Result
		if rt == "" {
			rt = "bool"
		}
		sig := e.checkSig(sp, "func("+p.Params+") "+rt, p.Src)
		sc.Insert(types.NewFunc(token.NoPos, sp.pkg, p.Name, sig))
	}
	names = names[:0]
	for k := range e.gfields {
		names = append(names, k)
	}
	sort.Strings(names)
	for _, k := range names {
		g := e.gfields[k]
		if g.PkgPath != pkgPath {
			// ghost fields of imported packages: <pkgname>_<field>
			if e.imports(pkgPath, g.PkgPath) {
				osp := e.synth(g.PkgPath)
				if g.sig != nil {
					sc.Insert(types.NewFunc(token.NoPos, sp.pkg, osp.real.Name()+"_"+g.Name, g.sig))
				}
			}
			continue
		}
		g.sig = e.checkSig(sp, "func"+g.Sig, g.Src)
		sc.Insert(types.NewFunc(token.NoPos, sp.pkg, g.Name, g.sig))
		srt := "Int"
		if isBoolT(g.sig.Results().At(0).Type()) {
			srt = "Bool"
		}
		e.ghostFields[g.Name] = srt
		for i := range g.Defs {
			g.Defs[i].sig = e.checkSig(sp, "func("+g.Defs[i].Params+") bool", g.Defs[i].Src)
		}
	}
	names = names[:0]
	for k := range e.db.UFs {
		names = append(names, k)
	}
	sort.Strings(names)
	for _, k := range names {
		u := e.db.UFs[k]
		if u.PkgPath != pkgPath {
			// uninterpreted functions of imported packages: <pkgname>_<uf>
			if e.imports(pkgPath, u.PkgPath) {
				osp := e.synth(u.PkgPath)
				if o := osp.pkg.Scope().Lookup(u.Name); o != nil {
					if f, ok := o.(*types.Func); ok {
						sc.Insert(types.NewFunc(token.NoPos, sp.pkg, osp.real.Name()+"_"+u.Name, f.Type().(*types.Signature)))
					}
				}
			}
			continue
		}
		sig := e.checkSig(sp, "func"+u.Sig, u.Src)
		sc.Insert(types.NewFunc(token.NoPos, sp.pkg, u.Name, sig))
	}
	return sp
}

func (e *Engine) checkSig(sp *synthPkg, text, src string) *types.Signature {
	ex, err := parser.ParseExprFrom(e.fset, src, text, 0)
	if err != nil {
		e.fatalf("%s: %v", src, err)
	}
	info := &types.Info{Types: map[ast.Expr]types.TypeAndValue{}}
	pos := sp.nextPos
	if err := types.CheckExpr(e.fset, sp.pkg, pos, ex, info); err != nil {
		e.fatalf("%s: signature %q: %v", src, text, err)
	}
	sig, ok := info.Types[ex].Type.(*types.Signature)
	if !ok {
		e.fatalf("%s: not a signature: %q", src, text)
	}
	return sig
}

func (e *Engine) typeFromText(pkgPath, text, src string) types.Type {
	sp := e.synth(pkgPath)
	sig := e.checkSig(sp, "func(x "+text+") bool", src)
	return sig.Params().At(0).Type()
}

type checked struct {
	expr ast.Expr
	info *types.Info
}

// check parses and type-checks text in the scope of pkgPath extended with vars.
func (e *Engine) check(pkgPath string, vars []scopeVar, text, src string) (*checked, error) {
	var kb strings.Builder
	kb.WriteString(pkgPath)
	kb.WriteString("|")
	kb.WriteString(text)
	for _, v := range vars {
		kb.WriteString("|" + v.name + ":" + typeKey(v.typ))
	}
	key := kb.String()
	if c, ok := e.checkCache[key]; ok {
		return c, nil
	}
	sp := e.synth(pkgPath)
	ex, err := parser.ParseExprFrom(e.fset, src, text, 0)
	if err != nil {
		return nil, fmt.Errorf("%s: parse %q: %v", src, text, err)
	}
	lo := sp.nextPos
	sp.nextPos += 4
	sc := types.NewScope(sp.file, lo, lo+3, "clause")
	for _, v := range vars {
		if v.typ == nil {
			continue
		}
		sc.Insert(types.NewVar(token.NoPos, sp.pkg, v.name, v.typ))
	}
	info := &types.Info{Types: map[ast.Expr]types.TypeAndValue{}, Uses: map[*ast.Ident]types.Object{}, Defs: map[*ast.Ident]types.Object{},
		Selections: map[*ast.SelectorExpr]*types.Selection{}, Instances: map[*ast.Ident]types.Instance{}}
	if err := types.CheckExpr(e.fset, sp.pkg, lo+1, ex, info); err != nil {
		return nil, fmt.Errorf("%s: %q: %v", src, text, err)
	}
	c := &checked{expr: ex, info: info}
	e.checkCache[key] = c
	return c, nil
}

// ------------------------------------------------------------------ translation

func (c *EvalCtx) fail(format string, a ...any) {
	c.x.eng.fatalf("%s: %s", c.src, fmt.Sprintf(format, a...))
}

func (c *EvalCtx) state() *State {
	if c.inOld {
		if c.old == nil {
			c.fail("old() not available here")
		}
		return c.old
	}
	return c.st
}

func (c *EvalCtx) evalText(text string) (string, types.Type) {
	ck, err := c.x.eng.check(c.pkgPath, c.order, text, c.src)
	if err != nil {
		c.x.eng.fatalf("%v", err)
	}
	c.info = ck.info
	if c.bound == nil {
		c.bound = map[types.Object]string{}
	}
	return c.expr(ck.expr)
}

func (c *EvalCtx) typeOf(e ast.Expr) types.Type {
	tv, ok := c.info.Types[e]
	if !ok {
		if id, isID := e.(*ast.Ident); isID {
			if o := c.info.Uses[id]; o != nil {
				return o.Type()
			}
		}
		c.fail("no type for expression")
	}
	return tv.Type
}

func (c *EvalCtx) constOf(e ast.Expr) (string, bool) {
	tv, ok := c.info.Types[e]
	if !ok || tv.Value == nil {
		return "", false
	}
	return c.constTerm(tv.Value, tv.Type), true
}

func (c *EvalCtx) constTerm(v constant.Value, t types.Type) string {
	vc := c.x.vc
	switch v.Kind() {
	case constant.Bool:
		if constant.BoolVal(v) {
			return "true"
		}
		return "false"
	case constant.String:
		return vc.strConst(constant.StringVal(v))
	case constant.Int:
		if t != nil && isFloatT(t) {
			f, _ := constant.Float64Val(v)
			if f == 0 {
				return "0"
			}
			return vc.floatConst(fmt.Sprint(f))
		}
		bi, _ := new(big.Int).SetString(v.ExactString(), 10)
		return smtInt(bi)
	case constant.Float:
		if t != nil {
			if _, isInt := intInfoOf(t); isInt {
				f, _ := constant.Float64Val(v)
				return smtInt(big.NewInt(int64(f)))
			}
		}
		f, _ := constant.Float64Val(v)
		if f == 0 {
			return "0"
		}
		return vc.floatConst(fmt.Sprint(f))
	}
	c.fail("unsupported constant %v", v)
	return ""
}

func isGhostZ(t types.Type) bool {
	n, ok := t.(*types.Named)
	return ok && n.Obj().Name() == "Z" && n.Obj().Pkg() != nil && n.Obj().Pkg().Name() == "ghost"
}

func (c *EvalCtx) expr(e ast.Expr) (string, types.Type) {
	vc := c.x.vc
	if t, ok := c.constOf(e); ok {
		return t, c.typeOf(e)
	}
	switch n := e.(type) {
	case *ast.ParenExpr:
		return c.expr(n.X)
	case *ast.Ident:
		return c.ident(n)
	case *ast.SelectorExpr:
		return c.selector(n)
	case *ast.StarExpr:
		p, pt := c.expr(n.X)
		et := pointee(pt)
		k := vc.heapKey("H", et)
		return fmt.Sprintf("(select %s %s)", vc.heapGet(c.state(), k), p), et
	case *ast.IndexExpr:
		return c.index(n)
	case *ast.SliceExpr:
		s, stt := c.expr(n.X)
		if _, ok := stt.Underlying().(*types.Slice); !ok {
			c.fail("slice expression on %s", stt)
		}
		lo, hi := "0", fmt.Sprintf("(s-len %s)", s)
		if n.Low != nil {
			lo, _ = c.expr(n.Low)
		}
		if n.High != nil {
			hi, _ = c.expr(n.High)
		}
		return fmt.Sprintf("(mk-slice (s-arr %s) (+ (s-off %s) %s) (- %s %s) (- (s-cap %s) %s))", s, s, lo, hi, lo, s, lo), stt
	case *ast.UnaryExpr:
		a, at := c.expr(n.X)
		switch n.Op {
		case token.NOT:
			return "(not " + a + ")", at
		case token.SUB:
			if ii, ok := intInfoOf(at); ok && !isGhostZ(at) && !c.math {
				return c.x.wrapIf(nil, ii, "(- "+a+")"), at
			}
			return "(- " + a + ")", at
		case token.ADD:
			return a, at
		}
		c.fail("unsupported unary %s", n.Op)
	case *ast.BinaryExpr:
		return c.binary(n)
	case *ast.CallExpr:
		return c.call(n)
	case *ast.FuncLit:
		return c.funcValue(n), c.typeOf(n)
	case *ast.BasicLit:
		c.fail("literal without constant value")
	case *ast.CompositeLit:
		t := c.typeOf(n)
		if st := structOf(t); st != nil {
			vals := make([]string, st.NumFields())
			for i := range vals {
				vals[i] = vc.zeroOf(st.Field(i).Type())
			}
			for i, el := range n.Elts {
				if kv, ok := el.(*ast.KeyValueExpr); ok {
					name := kv.Key.(*ast.Ident).Name
					for f := 0; f < st.NumFields(); f++ {
						if st.Field(f).Name() == name {
							vals[f], _ = c.expr(kv.Value)
						}
					}
				} else {
					vals[i], _ = c.expr(el)
				}
			}
			srt := vc.sortOf(t)
			if len(vals) == 0 {
				return "mk_" + srt, t
			}
			return fmt.Sprintf("(mk_%s %s)", srt, strings.Join(vals, " ")), t
		}
		c.fail("unsupported composite literal of %s", t)
	}
	c.fail("unsupported expression %T", e)
	return "", nil
}

func (c *EvalCtx) ident(n *ast.Ident) (string, types.Type) {
	vc := c.x.vc
	switch n.Name {
	case "nil":
		return vc.zeroOf(c.typeOf(n)), c.typeOf(n)
	case "true", "false":
		return n.Name, types.Typ[types.Bool]
	}
	obj := c.info.Uses[n]
	if obj != nil {
		if t, ok := c.bound[obj]; ok {
			return t, obj.Type()
		}
	}
	if b, ok := c.vars[n.Name]; ok && (obj == nil || obj.Parent() == nil || obj.Parent().Parent() != types.Universe || true) {
		if _, isVar := obj.(*types.Var); isVar && obj.Pkg() != nil && obj.Parent() != nil && obj.Parent() == c.x.eng.synth(c.pkgPath).pkg.Scope() {
			// package-level variable, not the binding
		} else {
			return c.bindingTerm(n.Name, b), b.typ
		}
	}
	switch o := obj.(type) {
	case *types.Var:
		// package-level variable
		if g := c.x.eng.globalFor(o); g != nil {
			return vc.globalGet(c.state(), g), o.Type()
		}
		c.fail("unresolved variable %s", n.Name)
	case *types.Const:
		return c.constTerm(o.Val(), o.Type()), o.Type()
	case *types.Func:
		if fn := c.x.eng.prog.FuncValue(o); fn != nil {
			return c.x.funcID(fn), o.Type()
		}
	}
	c.fail("unresolved identifier %s", n.Name)
	return "", nil
}

func (c *EvalCtx) bindingTerm(name string, b *binding) string {
	if c.inOld && b.oldv != nil {
		return b.oldv.T
	}
	if b.loc != nil {
		if c.inOld {
			if b.loc.kind == lHeap && c.old != nil {
				// a captured variable: its cell already existed in the old state
				return c.x.load(c.fr, c.old, b.loc)
			}
			c.fail("local variable %s inside old()", name)
		}
		return c.x.load(c.fr, c.st, b.loc)
	}
	return b.val.T
}

func (c *EvalCtx) derefStruct(x string, t types.Type) (string, types.Type) {
	if pt := pointee(t); pt != nil {
		k := c.x.vc.heapKey("H", pt)
		return fmt.Sprintf("(select %s %s)", c.x.vc.heapGet(c.state(), k), x), pt
	}
	return x, t
}

func (c *EvalCtx) selector(n *ast.SelectorExpr) (string, types.Type) {
	vc := c.x.vc
	if id, ok := n.X.(*ast.Ident); ok {
		if _, isPkg := c.info.Uses[id].(*types.PkgName); isPkg {
			obj := c.info.Uses[n.Sel]
			switch o := obj.(type) {
			case *types.Const:
				return c.constTerm(o.Val(), o.Type()), o.Type()
			case *types.Var:
				if g := c.x.eng.globalFor(o); g != nil {
					return vc.globalGet(c.state(), g), o.Type()
				}
				// external global: a stable symbolic constant
				nm := "extglob_" + sanitize(o.Pkg().Path()+"."+o.Name())
				if !vc.declared[nm] {
					vc.declared[nm] = true
					vc.emit(fmt.Sprintf("(declare-fun %s () %s)", nm, vc.sortOf(o.Type())))
				}
				return nm, o.Type()
			}
			c.fail("unsupported qualified identifier %s.%s", id.Name, n.Sel.Name)
		}
	}
	sel := c.info.Selections[n]
	if sel == nil {
		c.fail("no selection info for %s", n.Sel.Name)
	}
	if sel.Kind() != types.FieldVal {
		c.fail("method value %s in contract expression", n.Sel.Name)
	}
	x, t := c.expr(n.X)
	for _, idx := range sel.Index() {
		x, t = c.derefStruct(x, t)
		st := structOf(t)
		x = vc.fieldSel(t, idx, x)
		t = st.Field(idx).Type()
	}
	return x, t
}

func (c *EvalCtx) index(n *ast.IndexExpr) (string, types.Type) {
	vc := c.x.vc
	// generic instantiation f[T] is handled in call()
	x, t := c.expr(n.X)
	i, _ := c.expr(n.Index)
	switch u := t.Underlying().(type) {
	case *types.Slice:
		k := vc.heapKey("E", u.Elem())
		return fmt.Sprintf("(select (select %s (s-arr %s)) (eidx (s-off %s) %s))", vc.heapGet(c.state(), k), x, x, i), u.Elem()
	case *types.Array:
		return fmt.Sprintf("(select %s %s)", x, i), u.Elem()
	case *types.Map:
		kh, kv := vc.heapKey("MH", t), vc.heapKey("MV", t)
		return fmt.Sprintf("(ite (and (not (= %s 0)) (select (select %s %s) %s)) (select (select %s %s) %s) %s)", x, vc.heapGet(c.state(), kh), x, i,
			vc.heapGet(c.state(), kv), x, i, vc.zeroOf(u.Elem())), u.Elem()
	case *types.Pointer:
		if at, ok := u.Elem().Underlying().(*types.Array); ok {
			k := vc.heapKey("E", at.Elem())
			return fmt.Sprintf("(select (select %s %s) %s)", vc.heapGet(c.state(), k), x, i), at.Elem()
		}
	case *types.Basic:
		vc.uf("str_at", []string{"Int", "Int"}, "Int")
		return fmt.Sprintf("(str_at %s %s)", x, i), types.Typ[types.Uint8]
	}
	c.fail("unsupported index on %s", t)
	return "", nil
}

func (c *EvalCtx) binary(n *ast.BinaryExpr) (string, types.Type) {
	rt := c.typeOf(n)
	switch n.Op {
	case token.LAND, token.LOR:
		a, _ := c.expr(n.X)
		b, _ := c.expr(n.Y)
		if n.Op == token.LAND {
			return fmt.Sprintf("(and %s %s)", a, b), rt
		}
		return fmt.Sprintf("(or %s %s)", a, b), rt
	}
	a, at := c.expr(n.X)
	b, bt := c.expr(n.Y)
	// untyped constant operands take the other operand's type
	if tv := c.info.Types[n.X]; tv.Value != nil {
		at = bt
		if isFloatT(bt) {
			a = c.constTerm(tv.Value, bt)
		}
	}
	if tv := c.info.Types[n.Y]; tv.Value != nil {
		bt = at
		if isFloatT(at) {
			b = c.constTerm(tv.Value, at)
		}
	}
	if isGhostZ(at) || isGhostZ(bt) || c.math {
		switch n.Op {
		case token.ADD:
			return fmt.Sprintf("(+ %s %s)", a, b), rt
		case token.SUB:
			return fmt.Sprintf("(- %s %s)", a, b), rt
		case token.MUL:
			return fmt.Sprintf("(* %s %s)", a, b), rt
		}
	}
	fr := &Frame{x: c.x, unit: "spec", ord: map[string]int{}}
	return c.x.binop(fr, c.st, n.Op, a, b, at, bt, rt, n.Pos()), rt
}

func (c *EvalCtx) lambda(e ast.Expr, nparams int) (*ast.FuncLit, []types.Object) {
	fl, ok := e.(*ast.FuncLit)
	if !ok {
		c.fail("expected function literal")
	}
	var objs []types.Object
	for _, f := range fl.Type.Params.List {
		for _, nm := range f.Names {
			objs = append(objs, c.info.Defs[nm])
		}
	}
	if len(objs) != nparams {
		c.fail("function literal must have %d parameter(s)", nparams)
	}
	if len(fl.Body.List) != 1 {
		c.fail("function literal body must be a single return")
	}
	if _, ok := fl.Body.List[0].(*ast.ReturnStmt); !ok {
		c.fail("function literal body must be a single return")
	}
	return fl, objs
}

func (c *EvalCtx) lambdaBody(fl *ast.FuncLit) (string, types.Type) {
	c.x.vc.quiet++
	defer func() { c.x.vc.quiet-- }()
	return c.expr(fl.Body.List[0].(*ast.ReturnStmt).Results[0])
}

func (c *EvalCtx) call(n *ast.CallExpr) (string, types.Type) {
	vc := c.x.vc
	rt := c.typeOf(n)
	// conversion?
	if tv, ok := c.info.Types[n.Fun]; ok && tv.IsType() {
		a, at := c.expr(n.Args[0])
		if isGhostZ(tv.Type) {
			return a, tv.Type
		}
		if isGhostZ(at) {
			if ii, ok := intInfoOf(tv.Type); ok {
				return ii.wrap(a), tv.Type
			}
		}
		if cv := c.info.Types[n.Args[0]]; cv.Value != nil {
			return c.constTerm(cv.Value, tv.Type), tv.Type
		}
		if _, isIface := tv.Type.Underlying().(*types.Interface); isIface {
			return c.x.box(c.st, a, at), tv.Type
		}
		return c.x.convert(nil, c.st, a, at, tv.Type), tv.Type
	}
	// callee identifier
	var fname string
	var fobj types.Object
	fun := n.Fun
	if ix, ok := fun.(*ast.IndexExpr); ok {
		fun = ix.X
	}
	if ix, ok := fun.(*ast.IndexListExpr); ok {
		fun = ix.X
	}
	switch f := fun.(type) {
	case *ast.Ident:
		fname = f.Name
		fobj = c.info.Uses[f]
	case *ast.SelectorExpr:
		fobj = c.info.Uses[f.Sel]
		fname = f.Sel.Name
	}
	if fv, ok := fobj.(*types.Var); ok {
		if sig, isSig := fv.Type().Underlying().(*types.Signature); isSig && sig.Params().Len() == 1 {
			c.x.declPsum()
			f, _ := c.expr(fun)
			a, _ := c.expr(n.Args[0])
			return fmt.Sprintf("(apply1 %s %s)", f, a), rt
		}
	}
	if b, ok := fobj.(*types.Builtin); ok {
		switch b.Name() {
		case "len", "cap":
			a, at := c.expr(n.Args[0])
			switch u := at.Underlying().(type) {
			case *types.Slice:
				if b.Name() == "len" {
					return fmt.Sprintf("(s-len %s)", a), rt
				}
				return fmt.Sprintf("(s-cap %s)", a), rt
			case *types.Basic:
				return fmt.Sprintf("(strlen %s)", a), rt
			case *types.Map:
				k := vc.heapKey("MC", at)
				return fmt.Sprintf("(ite (= %s 0) 0 (select %s %s))", a, vc.heapGet(c.state(), k), a), rt
			case *types.Array:
				return fmt.Sprint(u.Len()), rt
			}
			c.fail("len of %s", at)
		case "min", "max":
			a, _ := c.expr(n.Args[0])
			b2, _ := c.expr(n.Args[1])
			op := "<="
			if b.Name() == "max" {
				op = ">="
			}
			return fmt.Sprintf("(ite (%s %s %s) %s %s)", op, a, b2, a, b2), rt
		}
		c.fail("builtin %s not supported in contracts", b.Name())
	}
	if fobj != nil && fobj.Pkg() != nil && fobj.Pkg().Name() == "ghost" && fobj.Pkg().Path() == "ghost" {
		return c.ghostCall(fname, n, rt)
	}
	// predicates of imported packages: <pkgname>_<pred>
	if i := strings.Index(fname, "_"); i > 0 && fobj != nil && fobj.Pkg() == c.x.eng.synth(c.pkgPath).pkg {
		for _, p := range c.x.eng.db.Preds {
			if p.PkgPath != c.pkgPath && p.Name == fname[i+1:] && c.x.eng.imports(c.pkgPath, p.PkgPath) && c.x.eng.typesPkg(p.PkgPath).Name() == fname[:i] {
				return c.predCall(p, fobj.Type().(*types.Signature), n), rt
			}
		}
	}
	// uninterpreted functions of imported packages: <pkgname>_<uf>
	if i := strings.Index(fname, "_"); i > 0 && fobj != nil && fobj.Pkg() == c.x.eng.synth(c.pkgPath).pkg {
		for _, u := range c.x.eng.db.UFs {
			if u.PkgPath != c.pkgPath && u.Name == fname[i+1:] && c.x.eng.imports(c.pkgPath, u.PkgPath) && c.x.eng.typesPkg(u.PkgPath).Name() == fname[:i] {
				return c.ufCall(u, fobj.Type().(*types.Signature), n, rt)
			}
		}
	}
	// predicates and UFs of this package
	if p, ok := c.x.eng.db.Preds[c.pkgPath+" "+fname]; ok && fobj != nil && fobj.Pkg() == c.x.eng.synth(c.pkgPath).pkg {
		return c.predCall(p, fobj.Type().(*types.Signature), n), rt
	}
	if u, ok := c.x.eng.db.UFs[c.pkgPath+" "+fname]; ok && fobj != nil && fobj.Pkg() == c.x.eng.synth(c.pkgPath).pkg {
		return c.ufCall(u, fobj.Type().(*types.Signature), n, rt)
	}
	if g, _, ok := c.x.eng.gfieldLookup(c.pkgPath, fname); ok && fobj != nil && fobj.Pkg() == c.x.eng.synth(c.pkgPath).pkg {
		a, at := c.expr(n.Args[0])
		for _, d := range g.Defs {
			if types.Identical(d.sig.Params().At(0).Type(), at) {
				sub := &EvalCtx{x: c.x, fr: c.fr, st: c.state(), old: c.old, pkgPath: g.PkgPath, vars: map[string]*binding{}, src: d.Src, math: c.math}
				pv := d.sig.Params().At(0)
				sub.vars[pv.Name()] = &binding{val: Val{T: a}, typ: pv.Type()}
				sub.order = append(sub.order, scopeVar{pv.Name(), pv.Type()})
				t, _ := sub.evalText(d.Body)
				return t, rt
			}
		}
		pt := g.sig.Params().At(0).Type()
		if _, isIface := pt.Underlying().(*types.Interface); isIface {
			if _, already := at.Underlying().(*types.Interface); !already {
				a = c.x.box(c.st, a, at)
			}
		}
		return c.ghostField(g.Name, a), rt
	}
	// real functions and methods: inline their (loop-free) body
	if fo, ok := fobj.(*types.Func); ok {
		return c.inlineCall(fo, n, rt)
	}
	c.fail("unsupported call to %s", fname)
	return "", nil
}

func (c *EvalCtx) ufCall(u *UFDecl, sig *types.Signature, n *ast.CallExpr, rt types.Type) (string, types.Type) {
	vc := c.x.vc
	var args, sorts []string
	for i, a := range n.Args {
		t, at := c.expr(a)
		pt := sig.Params().At(i).Type()
		if _, isIface := pt.Underlying().(*types.Interface); isIface {
			t = c.x.box(c.st, t, at)
		}
		args = append(args, t)
		sorts = append(sorts, vc.sortOf(pt))
	}
	name := "uf_" + sanitize(u.Name)
	if !vc.ufs[name] {
		vc.uf(name, sorts, vc.sortOf(sig.Results().At(0).Type()))
		c.x.ufAxioms(u, name, sig)
	}
	if len(args) == 0 {
		return name, rt
	}
	t := fmt.Sprintf("(%s %s)", name, strings.Join(args, " "))
	if len(c.bound) == 0 {
		for _, f := range vc.typeFacts(t, sig.Results().At(0).Type(), "", 1) {
			vc.assume("true", f)
		}
	}
	return t, rt
}

func (c *EvalCtx) predCall(p *Pred, sig *types.Signature, n *ast.CallExpr) string {
	sub := &EvalCtx{x: c.x, fr: c.fr, st: c.st, old: c.old, pkgPath: p.PkgPath, vars: map[string]*binding{}, src: p.Src, inOld: false, math: c.math, resultAlloc: c.resultAlloc}
	if c.inOld {
		sub.st = c.old
	}
	for i, a := range n.Args {
		t, _ := c.expr(a)
		pv := sig.Params().At(i)
		sub.vars[pv.Name()] = &binding{val: Val{T: t}, typ: pv.Type()}
		sub.order = append(sub.order, scopeVar{pv.Name(), pv.Type()})
	}
	c.x.eng.predDepth++
	if c.x.eng.predDepth > 8 {
		c.fail("predicate recursion too deep (%s)", p.Name)
	}
	t, _ := sub.evalText(p.Body)
	c.x.eng.predDepth--
	return t
}

func (c *EvalCtx) ghostCall(name string, n *ast.CallExpr, rt types.Type) (string, types.Type) {
	vc := c.x.vc
	switch name {
	case "old":
		if c.inOld {
			return c.expr(n.Args[0])
		}
		c.inOld = true
		t, ty := c.expr(n.Args[0])
		c.inOld = false
		return t, ty
	case "implies":
		a, _ := c.expr(n.Args[0])
		b, _ := c.expr(n.Args[1])
		return fmt.Sprintf("(=> %s %s)", a, b), rt
	case "iff":
		a, _ := c.expr(n.Args[0])
		b, _ := c.expr(n.Args[1])
		return fmt.Sprintf("(= %s %s)", a, b), rt
	case "same":
		a, _ := c.expr(n.Args[0])
		b, _ := c.expr(n.Args[1])
		return fmt.Sprintf("(= %s %s)", a, b), rt
	case "cond":
		a, _ := c.expr(n.Args[0])
		b, _ := c.expr(n.Args[1])
		d, _ := c.expr(n.Args[2])
		return fmt.Sprintf("(ite %s %s %s)", a, b, d), rt
	case "forall", "exists":
		lo, _ := c.expr(n.Args[0])
		hi, _ := c.expr(n.Args[1])
		fl, objs := c.lambda(n.Args[2], 1)
		v := vc.fresh("q_" + objs[0].Name())
		c.bound[objs[0]] = v
		body, _ := c.lambdaBody(fl)
		delete(c.bound, objs[0])
		if name == "forall" {
			return fmt.Sprintf("(forall ((%s Int)) (=> (and (<= %s %s) (< %s %s)) %s))", v, lo, v, v, hi, body), rt
		}
		return fmt.Sprintf("(exists ((%s Int)) (and (<= %s %s) (< %s %s) %s))", v, lo, v, v, hi, body), rt
	case "all":
		fl, objs := c.lambda(n.Args[0], 1)
		v := vc.fresh("q_" + objs[0].Name())
		c.bound[objs[0]] = v
		body, _ := c.lambdaBody(fl)
		delete(c.bound, objs[0])
		var guards []string
		if _, isInt := intInfoOf(objs[0].Type()); isInt {
			guards = append(guards, vc.typeFacts(v, objs[0].Type(), "", 1)...)
		}
		g := "true"
		if len(guards) > 0 {
			g = "(and " + strings.Join(guards, " ") + ")"
		}
		return fmt.Sprintf("(forall ((%s %s)) (=> %s %s))", v, vc.sortOf(objs[0].Type()), g, body), rt
	case "presum":
		f := c.funcValue(n.Args[0])
		k, _ := c.expr(n.Args[1])
		return fmt.Sprintf("(psum %s %s)", f, k), rt
	case "sliceoff":
		a, _ := c.expr(n.Args[0])
		return fmt.Sprintf("(s-off %s)", a), rt
	case "sameorigin":
		a, _ := c.expr(n.Args[0])
		b, _ := c.expr(n.Args[1])
		return fmt.Sprintf("(and (= (s-arr %s) (s-arr %s)) (= (s-off %s) (s-off %s)))", a, b, a, b), rt
	case "oldelem":
		// element i of slice s as it was in the entry state (s and i themselves are evaluated normally)
		if c.old == nil {
			c.fail("oldelem() not available here")
		}
		sl, slt := c.expr(n.Args[0])
		i, _ := c.expr(n.Args[1])
		et := slt.Underlying().(*types.Slice).Elem()
		k := vc.heapKey("E", et)
		return fmt.Sprintf("(select (select %s (s-arr %s)) (eidx (s-off %s) %s))", vc.heapGet(c.old, k), sl, sl, i), et
	case "sameblock2":
		a, _ := c.expr(n.Args[0])
		b, _ := c.expr(n.Args[1])
		return fmt.Sprintf("(= (s-arr %s) (s-arr %s))", a, b), rt
	case "sameblock":
		a, _ := c.expr(n.Args[0])
		b, _ := c.expr(n.Args[1])
		return fmt.Sprintf("(= (s-arr %s) (s-arr %s))", a, b), rt
	case "fresh":
		a, at := c.expr(n.Args[0])
		if c.resultAlloc == "" {
			// inside the body: allocated since entry (or the nil block)
			if c.fr == nil || c.fr.entry == nil {
				c.fail("fresh() not available here")
			}
			if _, isSl := at.Underlying().(*types.Slice); isSl {
				a = fmt.Sprintf("(s-arr %s)", a)
			}
			return fmt.Sprintf("(or (= %s 0) (and (>= %s %s) (< %s %s)))", a, a, c.fr.entry.alloc, a, c.st.alloc), rt
		}
		if _, isSl := at.Underlying().(*types.Slice); isSl {
			a = fmt.Sprintf("(s-arr %s)", a)
		}
		return fmt.Sprintf("(and (>= %s %s) (< %s %s))", a, c.resultAlloc, a, c.st.alloc), rt
	case "allocated":
		a, at := c.expr(n.Args[0])
		if _, isSl := at.Underlying().(*types.Slice); isSl {
			a = fmt.Sprintf("(s-arr %s)", a)
		}
		return fmt.Sprintf("(< %s %s)", a, c.state().alloc), rt
	case "nonnil", "isnil":
		a, at := c.expr(n.Args[0])
		if _, isSl := at.Underlying().(*types.Slice); isSl {
			a = fmt.Sprintf("(s-arr %s)", a)
		}
		if name == "isnil" {
			return fmt.Sprintf("(= %s 0)", a), rt
		}
		return fmt.Sprintf("(not (= %s 0))", a), rt
	case "typeis":
		a, at := c.expr(n.Args[0])
		if _, isIface := at.Underlying().(*types.Interface); !isIface {
			c.fail("typeis on non-interface")
		}
		inst := c.instanceOf(n)
		return fmt.Sprintf("(= (dyntype %s) %s)", a, vc.typeID(inst.TypeArgs.At(0))), rt
	case "unbox":
		a, _ := c.expr(n.Args[0])
		inst := c.instanceOf(n)
		t := inst.TypeArgs.At(0)
		tag := c.x.sortTag(t)
		c.x.declBox(t)
		return fmt.Sprintf("(unbox_%s %s)", tag, a), t
	case "haskey":
		m, mt := c.expr(n.Args[0])
		k, _ := c.expr(n.Args[1])
		kh := vc.heapKey("MH", mt)
		return fmt.Sprintf("(and (not (= %s 0)) (select (select %s %s) %s))", m, vc.heapGet(c.state(), kh), m, k), rt
	case "card":
		m, mt := c.expr(n.Args[0])
		kc := vc.heapKey("MC", mt)
		return fmt.Sprintf("(ite (= %s 0) 0 (select %s %s))", m, vc.heapGet(c.state(), kc), m), rt
	}
	c.fail("unknown ghost function %s", name)
	return "", nil
}

func (c *EvalCtx) instanceOf(n *ast.CallExpr) types.Instance {
	fun := n.Fun
	if ix, ok := fun.(*ast.IndexExpr); ok {
		fun = ix.X
	}
	if ix, ok := fun.(*ast.IndexListExpr); ok {
		fun = ix.X
	}
	id, _ := fun.(*ast.Ident)
	inst, ok := c.info.Instances[id]
	if !ok {
		c.fail("missing type instance")
	}
	return inst
}

// declPsum declares function application and prefix sums over int functions.
func (x *Exec) declPsum() {
	vc := x.vc
	if vc.ufs["psum"] {
		return
	}
	vc.uf("apply1", []string{"Int", "Int"}, "Int")
	vc.uf("psum", []string{"Int", "Int"}, "Int")
	vc.emit("(assert (forall ((f Int)) (! (= (psum f 0) 0) :pattern ((psum f 0)))))")
	// the recursive step is not instantiated automatically (it would unfold
	// without bound); contracts request instances with `use psumStep(f, k)`
}

// funcValue translates an int->int function argument: a function literal
// becomes a named function value defined by an axiom; a variable of function
// type is its value.
func (c *EvalCtx) funcValue(e ast.Expr) string {
	c.x.declPsum()
	vc := c.x.vc
	if p, ok := e.(*ast.ParenExpr); ok {
		e = p.X
	}
	fl, ok := e.(*ast.FuncLit)
	if !ok {
		t, _ := c.expr(e)
		return t
	}
	_, objs := c.lambda(fl, 1)
	if len(c.bound) > 0 {
		c.fail("function literal used as a value inside a quantifier")
	}
	v := vc.fresh("q_" + objs[0].Name())
	c.bound[objs[0]] = v
	// record the heap terms the body reads: the function value is lifted
	// over them, so that equal heaps (e.g. after a state merge) give equal
	// function values by congruence
	vc.heapTrace = map[string]string{}
	body, _ := c.lambdaBody(fl)
	trace := vc.heapTrace
	vc.heapTrace = nil
	delete(c.bound, objs[0])
	// longest terms first, so that nested occurrences are replaced correctly
	var hts []string
	for t := range trace {
		hts = append(hts, t)
	}
	sort.Slice(hts, func(i, j int) bool {
		if len(hts[i]) != len(hts[j]) {
			return len(hts[i]) > len(hts[j])
		}
		return hts[i] < hts[j]
	})
	abst := strings.ReplaceAll(body, v, "?j")
	var params, sorts, args []string
	for i, t := range hts {
		pv := fmt.Sprintf("?h%d", i)
		if !strings.Contains(abst, t) {
			continue
		}
		abst = strings.ReplaceAll(abst, t, pv)
		params = append(params, pv)
		sorts = append(sorts, trace[t])
		args = append(args, t)
	}
	key := vc.unit + "|lam|" + abst + "|" + strings.Join(sorts, ",")
	fn, ok := c.x.eng.presums[key]
	if !ok {
		fn = vc.fresh("lamfun")
		c.x.eng.presums[key] = fn
		vc.emit(fmt.Sprintf("(declare-fun %s (%s) Int)", fn, strings.Join(sorts, " ")))
		var binders []string
		ab := abst
		for i, pv := range params {
			nm := fmt.Sprintf("%s_h%d", fn, i)
			binders = append(binders, fmt.Sprintf("(%s %s)", nm, sorts[i]))
			ab = strings.ReplaceAll(ab, pv, nm)
		}
		jv := fn + "_j"
		ab = strings.ReplaceAll(ab, "?j", jv)
		binders = append(binders, fmt.Sprintf("(%s Int)", jv))
		app := fn
		if len(params) > 0 {
			var ns []string
			for i := range params {
				ns = append(ns, fmt.Sprintf("%s_h%d", fn, i))
			}
			app = fmt.Sprintf("(%s %s)", fn, strings.Join(ns, " "))
		}
		vc.emit(fmt.Sprintf("(assert (forall (%s) (! (= (apply1 %s %s) %s) :pattern ((apply1 %s %s)))))", strings.Join(binders, " "), app, jv, ab, app, jv))
	}
	if len(args) == 0 {
		return fn
	}
	return fmt.Sprintf("(%s %s)", fn, strings.Join(args, " "))
}

func n2args(n *ast.CallExpr) []ast.Expr { return n.Args }

// inlineCall evaluates a call to a real (loop-free) Go function inside a
// contract expression by executing its SSA body in the evaluation state.
func (c *EvalCtx) inlineCall(fo *types.Func, n *ast.CallExpr, rt types.Type) (string, types.Type) {
	eng := c.x.eng
	var args []Val
	var fn *ssa.Function
	sig := fo.Type().(*types.Signature)
	if sig.Recv() != nil {
		se, ok := n.Fun.(*ast.SelectorExpr)
		if !ok {
			c.fail("method call shape")
		}
		sel := c.info.Selections[se]
		recv, rtyp := c.expr(se.X)
		// walk embedded path
		idx := sel.Index()
		for _, i := range idx[:len(idx)-1] {
			recv, rtyp = c.derefStruct(recv, rtyp)
			st := structOf(rtyp)
			recv = c.x.vc.fieldSel(rtyp, i, recv)
			rtyp = st.Field(i).Type()
		}
		if _, isIface := rtyp.Underlying().(*types.Interface); isIface {
			// interface method in a contract: its ghost view, if declared
			if gf := eng.ghostViewFor(rtyp, fo.Name()); gf != "" {
				return c.ghostField(gf, recv), rt
			}
			// deterministic interface method: the same function symbol the call rule uses
			if nt, ok := types.Unalias(rtyp).(*types.Named); ok && nt.Obj().Pkg() != nil {
				ict := eng.db.Funcs[nt.Obj().Pkg().Path()+" iface "+nt.Obj().Name()+"."+fo.Name()]
				if ict == nil {
					ict = eng.db.Funcs["iface "+nt.Obj().Pkg().Path()+"."+nt.Obj().Name()+"."+fo.Name()]
				}
				if ict != nil && ict.Deterministic && sig.Results().Len() == 1 {
					vc := c.x.vc
					name := fmt.Sprintf("det_%s_%d", sanitize(ict.Key), 0)
					sorts := []string{vc.sortOf(rtyp)}
					ats := []string{recv}
					for i, a := range n2args(n) {
						t, _ := c.expr(a)
						sorts = append(sorts, vc.sortOf(sig.Params().At(i).Type()))
						ats = append(ats, t)
					}
					vc.uf(name, sorts, vc.sortOf(sig.Results().At(0).Type()))
					return fmt.Sprintf("(%s %s)", name, strings.Join(ats, " ")), rt
				}
			}
			c.fail("call of interface method %s in contract (declare a ghost view)", fo.Name())
		}
		wantPtr := pointee(sig.Recv().Type()) != nil
		isPtr := pointee(rtyp) != nil
		if wantPtr && !isPtr {
			c.fail("pointer-receiver method %s on non-pointer value in contract", fo.Name())
		}
		if !wantPtr && isPtr {
			recv, rtyp = c.derefStruct(recv, rtyp)
		}
		fn = eng.prog.FuncValue(fo)
		if fn == nil {
			// instantiated generic method
			fn = eng.methodFor(rtyp, fo)
		}
		args = append(args, Val{T: recv})
	} else {
		fn = eng.prog.FuncValue(fo)
	}
	if fn == nil || len(fn.Blocks) == 0 {
		c.fail("no body for %s", fo.FullName())
	}
	if fn.TypeParams().Len() > 0 {
		c.fail("generic function %s in contract", fo.FullName())
	}
	for i, a := range n.Args {
		t, at := c.expr(a)
		pt := sig.Params().At(min(i, sig.Params().Len()-1)).Type()
		if _, isIface := pt.Underlying().(*types.Interface); isIface {
			if _, already := at.Underlying().(*types.Interface); !already {
				t = c.x.box(c.st, t, at)
			}
		}
		args = append(args, Val{T: t})
	}
	st := c.state().clone()
	// specification-level evaluation must not leave assumptions behind (e.g.
	// "receiver is non-nil" from the callee's field accesses): run it quietly
	c.x.vc.quiet++
	res := c.x.inline(c.fr, st, fn, args, nil, nil, true)
	c.x.vc.quiet--
	if res.Tup != nil {
		c.fail("multi-value call in contract")
	}
	return res.T, rt
}

func (c *EvalCtx) ghostField(name, obj string) string {
	vc := c.x.vc
	k := vc.ghostHeapKey(name, c.x.eng.ghostArrSort(vc, name))
	t := fmt.Sprintf("(select %s %s)", vc.heapGet(c.state(), k), obj)
	if len(c.bound) == 0 && vc.quiet == 0 {
		for _, g := range c.x.eng.gfields {
			if g.Name == name && g.sig != nil {
				for _, f := range vc.typeFacts(t, g.sig.Results().At(0).Type(), "", 1) {
					vc.assume("true", f)
				}
				break
			}
		}
	}
	return t
}

// ufAxioms instantiates declared axioms of an uninterpreted function.
func (x *Exec) ufAxioms(u *UFDecl, name string, sig *types.Signature) {
	for _, ax := range u.Axioms {
		c := &EvalCtx{x: x, fr: &Frame{x: x, unit: "axiom", ord: map[string]int{}}, st: &State{pc: "true", alloc: "0", cells: nil, heap: map[string]string{}, ghost: map[string]string{}}, pkgPath: u.PkgPath, vars: map[string]*binding{}, src: ax.Src}
		t, _ := c.evalText(ax.Text)
		x.vc.emit(fmt.Sprintf("(assert %s) ; axiom of %s", t, u.Name))
		x.vc.usedAssumed["axiom "+u.Name+": "+ax.Text] = true
	}
}
