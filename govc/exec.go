package main

import (
	"runtime"
	"crypto/sha1"
	"encoding/hex"
	"fmt"
	"go/constant"
	"go/token"
	"go/types"
	"math"
	"math/big"
	"os"
	"sort"
	"strings"

	"golang.org/x/tools/go/ssa"
)

type Val struct {
	T        string
	Loc      *Loc
	Tup      []Val
	Clo      *ssa.MakeClosure
	CloFr    *Frame
	ArrBlock bool // T is the id of an element block (pointer to array)
}

const (
	lCell = iota
	lHeap
	lElem
	lGlobal
)

type sel struct {
	field   int // >=0: struct field
	idx     string
	structT types.Type
}

type Loc struct {
	kind   int
	cell   *ssa.Alloc
	key    string
	ptr    string
	idx    string
	global *ssa.Global
	rootT  types.Type
	path   []sel
	typ    types.Type
}

func (l *Loc) extend(s sel, t types.Type) *Loc {
	n := *l
	n.path = append(append([]sel{}, l.path...), s)
	n.typ = t
	return &n
}

type deferred struct {
	guard string
	instr *ssa.Defer
	args  []Val
	fnv   Val
}

type retInfo struct {
	st      *State
	results []Val
	pos     token.Pos
}

type Frame struct {
	x        *Exec
	fn       *ssa.Function
	regs     map[ssa.Value]Val
	ct       *FuncContract
	entry    *State
	top      bool
	nopanic  bool
	defers   []deferred
	rets     []retInfo
	panics   []*State
	loops    map[*ssa.BasicBlock]*loopInfo
	names    map[string]ssa.Value
	paramVal map[string]Val
	ord      map[string]int
	depth    int
	unit     string
	ghostLoc map[string]string // ghost local variable -> sort
	ghostTyp map[string]types.Type
	math     bool
	clo      map[*ssa.Alloc]*ssa.MakeClosure
	cloFrs   map[*ssa.Alloc]*Frame // frame in which the closure held by a cell was created
	inlineTag  string
	atSeen     map[int]bool
	paramAlias []string
	onEntry    func(st *State)
	exact64    bool
	fspec      *frameSpec
	siteOrds   map[ssa.Instruction]int
	recvOrds   map[ssa.Instruction]int // ordinal among all method calls on the same receiver type
	altSite    string                  // alternative (receiver-wildcard) name of the call site being executed
	curInstr   ssa.Instruction
}

type Exec struct {
	vc   *VC
	eng  *Engine
	priv []privCell // function-private heap cells (captured locals) currently live
	top  *Frame
}

// privCell: a heap-allocated local variable whose address never escapes
// except into closures of the same function.  Calls to code outside this
// function cannot write it.
type privCell struct {
	key   string
	ptr   string
	alloc *ssa.Alloc
	fr    *Frame
}

// addrPrivate: every use of the Alloc is a load/store/field address or a
// closure capture (no call argument, no store of the address itself).
func addrPrivate(a *ssa.Alloc) bool {
	var ok func(v ssa.Value, depth int) bool
	ok = func(v ssa.Value, depth int) bool {
		refs := v.Referrers()
		if refs == nil {
			return false
		}
		for _, r := range *refs {
			switch u := r.(type) {
			case *ssa.DebugRef:
			case *ssa.Store:
				if u.Val == v {
					return false
				}
			case *ssa.UnOp:
				if u.Op != token.MUL {
					return false
				}
			case *ssa.FieldAddr:
				if depth > 4 || !ok(u, depth+1) {
					return false
				}
			case *ssa.IndexAddr:
				if depth > 4 || !ok(u, depth+1) {
					return false
				}
			case *ssa.MakeClosure:
			default:
				return false
			}
		}
		return true
	}
	return ok(a, 0)
}

// closureWrites: a closure of the function writes the captured variable.
func closureWrites(fn *ssa.Function, a *ssa.Alloc) bool {
	for _, af := range fn.AnonFuncs {
		for _, fv := range af.FreeVars {
			if fv.Name() != a.Comment {
				continue
			}
			if refs := fv.Referrers(); refs != nil {
				for _, r := range *refs {
					switch u := r.(type) {
					case *ssa.Store:
						return true
					case *ssa.FieldAddr, *ssa.IndexAddr, *ssa.MakeClosure:
						_ = u
						return true // conservative
					}
				}
			}
		}
	}
	return false
}

// havocAllKeep forgets all memory except the function-private cells, which
// keep their values (optionally skipping cells the loop itself writes).
func (x *Exec) havocAllKeep(st *State, skip map[*ssa.Alloc]bool) {
	if os.Getenv("GOVC_DEBUG_KEEP") != "" {
		_, f, l, _ := runtime.Caller(1)
		fmt.Fprintf(os.Stderr, "havocAllKeep from %s:%d\n", f, l)
	}
	type saved struct {
		c   privCell
		val string
	}
	var keep []saved
	for _, c := range x.priv {
		if skip != nil && skip[c.alloc] {
			continue
		}
		keep = append(keep, saved{c, x.vc.freshDef("keep_"+c.alloc.Comment, x.vc.sortOf(pointee(c.alloc.Type())), fmt.Sprintf("(select %s %s)", x.vc.heapGet(st, c.key), c.ptr))})
	}
	// heaps of types the function's contract declares preserved
	savedKeys := map[string]string{}
	if x.top != nil && x.top.ct != nil {
		for _, tt := range x.top.ct.Preserves {
			tt = strings.TrimSpace(strings.SplitN(tt, "[A]", 2)[0])
			t := x.eng.typeFromText(x.top.ct.PkgPath, tt, x.top.ct.Src)
			keys := []string{x.vc.heapKey("H", t), x.vc.heapKey("E", t), x.vc.heapKey("E", types.NewPointer(t)), x.vc.heapKey("H", types.NewSlice(types.NewPointer(t)))}
			if _, isMap := t.Underlying().(*types.Map); isMap {
				keys = []string{x.vc.heapKey("MH", t), x.vc.heapKey("MV", t), x.vc.heapKey("MC", t)}
			}
			for _, k := range keys {
				savedKeys[k] = x.vc.heapGet(st, k)
			}
			x.vc.usedAssumed["uncontracted calls in "+x.top.unit+" do not modify values of type "+tt] = true
		}
	}
	x.vc.havocAll(st)
	for k, v := range savedKeys {
		st.heap[k] = v
	}
	for _, k := range keep {
		st.heap[k.c.key] = fmt.Sprintf("(store %s %s %s)", x.vc.heapGet(st, k.c.key), k.c.ptr, k.val)
	}
}

// siteOrd: ordinal of an at-site instruction among the sites of the same
// kind, in source order (independent of the traversal order of the CFG).
func (fr *Frame) siteOrd(kind string, in ssa.Instruction) int {
	if fr.siteOrds == nil {
		fr.siteOrds = map[ssa.Instruction]int{}
		type ent struct {
			in   ssa.Instruction
			pos  token.Pos
			b, k int
		}
		groups := map[string][]ent{}
		for _, b := range fr.fn.Blocks {
			for k, i := range b.Instrs {
				var name string
				switch v := i.(type) {
				case *ssa.Go:
					name = "go"
				case *ssa.Send:
					name = "send"
				case *ssa.Select:
					name = "select"
				case *ssa.MakeChan:
					name = "makechan"
				case *ssa.UnOp:
					if v.Op == token.ARROW {
						name = "recv"
					}
				case *ssa.Call:
					if b2, ok := v.Call.Value.(*ssa.Builtin); ok {
						if b2.Name() == "close" {
							name = "close"
						}
						if b2.Name() == "delete" {
							name = "delete"
						}
					} else {
						name = "call:" + shortCallee(&v.Call)
					}
				case *ssa.Defer:
					if _, ok := v.Call.Value.(*ssa.Builtin); !ok {
						name = "call:" + shortCallee(&v.Call)
					}
				}
				if name != "" {
					groups[name] = append(groups[name], ent{i, i.Pos(), b.Index, k})
					// second numbering: all methods of one receiver type (call:T.*#k)
					if strings.HasPrefix(name, "call:") {
						if d := strings.Index(name, "."); d > 0 {
							groups["*"+name[:d]+".*"] = append(groups["*"+name[:d]+".*"], ent{i, i.Pos(), b.Index, k})
						}
					}
				}
			}
		}
		fr.recvOrds = map[ssa.Instruction]int{}
		for gname, g := range groups {
			sort.SliceStable(g, func(a, c int) bool {
				if g[a].pos != g[c].pos {
					return g[a].pos < g[c].pos
				}
				if g[a].b != g[c].b {
					return g[a].b < g[c].b
				}
				return g[a].k < g[c].k
			})
			for n, e := range g {
				if strings.HasPrefix(gname, "*") {
					fr.recvOrds[e.in] = n
				} else {
					fr.siteOrds[e.in] = n
				}
			}
		}
	}
	if n, ok := fr.siteOrds[in]; ok {
		return n
	}
	return fr.nextOrd("dyn:" + kind)
}

// dumpSites lists the at-sites of the function (debug aid: GOVC_SITES=1).
func (fr *Frame) dumpSites(x *Exec) {
	fr.siteOrd("", nil)
	type row struct {
		line int
		s    string
	}
	var rows []row
	for _, b := range fr.fn.Blocks {
		for _, i := range b.Instrs {
			n, ok := fr.siteOrds[i]
			if !ok {
				continue
			}
			var name string
			switch v := i.(type) {
			case *ssa.Go:
				name = "go"
			case *ssa.Send:
				name = "send"
			case *ssa.Select:
				name = "select"
			case *ssa.MakeChan:
				name = "makechan"
			case *ssa.UnOp:
				name = "recv"
			case *ssa.Call:
				if b2, ok := v.Call.Value.(*ssa.Builtin); ok {
					name = b2.Name()
				} else {
					name = "call:" + shortCallee(&v.Call)
				}
			case *ssa.Defer:
				name = "call:" + shortCallee(&v.Call) + " (deferred)"
			}
			p := x.eng.fset.Position(i.Pos())
			rows = append(rows, row{p.Line, fmt.Sprintf("  %s#%d  @ line %d", name, n, p.Line)})
		}
	}
	sort.Slice(rows, func(a, b int) bool { return rows[a].line < rows[b].line })
	fmt.Fprintf(os.Stderr, "SITES %s\n", fr.unit)
	for _, r := range rows {
		fmt.Fprintln(os.Stderr, r.s)
	}
}

func (fr *Frame) nextOrd(kind string) int {
	n := fr.ord[kind]
	fr.ord[kind] = n + 1
	return n
}

func (x *Exec) pos(p token.Pos) string {
	if !p.IsValid() {
		return ""
	}
	ps := x.eng.fset.Position(p)
	return fmt.Sprintf("%s:%d", shortPath(ps.Filename), ps.Line)
}

func shortPath(p string) string {
	p = strings.TrimPrefix(p, "/repo/")
	return p
}

// ------------------------------------------------------------------ loops

type loopInfo struct {
	header    *ssa.BasicBlock
	ordinal   int
	blocks    map[*ssa.BasicBlock]bool
	minPos    token.Pos
	modCells  map[*ssa.Alloc]bool
	modKeys   map[string]bool
	modGlob   map[*ssa.Global]bool
	modAll    bool
	allocates bool
	ghostMod  map[string]bool
	decTerm   string
}

func isBackEdge(from, to *ssa.BasicBlock) bool {
	return to.Dominates(from)
}

func computeLoops(fn *ssa.Function) map[*ssa.BasicBlock]*loopInfo {
	loops := map[*ssa.BasicBlock]*loopInfo{}
	for _, b := range fn.Blocks {
		for _, s := range b.Succs {
			if isBackEdge(b, s) {
				li := loops[s]
				if li == nil {
					li = &loopInfo{header: s, blocks: map[*ssa.BasicBlock]bool{s: true}}
					loops[s] = li
				}
				// natural loop: all blocks reaching b without passing s
				var stack []*ssa.BasicBlock
				if !li.blocks[b] {
					li.blocks[b] = true
					stack = append(stack, b)
				}
				for len(stack) > 0 {
					n := stack[len(stack)-1]
					stack = stack[:len(stack)-1]
					for _, p := range n.Preds {
						if !li.blocks[p] {
							li.blocks[p] = true
							stack = append(stack, p)
						}
					}
				}
			}
		}
	}
	var list []*loopInfo
	for _, li := range loops {
		li.minPos = token.Pos(math.MaxInt32)
		for b := range li.blocks {
			for _, in := range b.Instrs {
				if _, isDbg := in.(*ssa.DebugRef); isDbg {
					continue
				}
				if p := in.Pos(); p.IsValid() && p < li.minPos {
					li.minPos = p
				}
			}
		}
		list = append(list, li)
	}
	sort.Slice(list, func(i, j int) bool {
		if list[i].minPos != list[j].minPos {
			return list[i].minPos < list[j].minPos
		}
		if len(list[i].blocks) != len(list[j].blocks) {
			return len(list[i].blocks) > len(list[j].blocks)
		}
		return list[i].header.Index < list[j].header.Index
	})
	for i, li := range list {
		li.ordinal = i
	}
	return loops
}

func isArrayT(t types.Type) bool {
	_, ok := t.Underlying().(*types.Array)
	return ok
}

func isAddrProducer(v ssa.Value) bool {
	switch v.(type) {
	case *ssa.Alloc, *ssa.FieldAddr, *ssa.IndexAddr, *ssa.Global:
		return true
	}
	return false
}

func pointee(t types.Type) types.Type {
	if p, ok := t.Underlying().(*types.Pointer); ok {
		return p.Elem()
	}
	return nil
}

// static classification of the root of an address
func (x *Exec) addrRoot(v ssa.Value) (kind string, cell *ssa.Alloc, key string, glob *ssa.Global) {
	switch a := v.(type) {
	case *ssa.Alloc:
		et := pointee(a.Type())
		if isArrayT(et) {
			return "E", nil, x.vc.heapKey("E", et.Underlying().(*types.Array).Elem()), nil
		}
		if a.Heap {
			return "H", nil, x.vc.heapKey("H", et), nil
		}
		return "cell", a, "", nil
	case *ssa.Global:
		return "G", nil, "", a
	case *ssa.FieldAddr:
		if isAddrProducer(a.X) {
			return x.addrRoot(a.X)
		}
		return "H", nil, x.vc.heapKey("H", pointee(a.X.Type())), nil
	case *ssa.IndexAddr:
		switch xt := a.X.Type().Underlying().(type) {
		case *types.Slice:
			return "E", nil, x.vc.heapKey("E", xt.Elem()), nil
		case *types.Pointer:
			if isAddrProducer(a.X) {
				return x.addrRoot(a.X)
			}
			return "E", nil, x.vc.heapKey("E", xt.Elem().Underlying().(*types.Array).Elem()), nil
		}
	}
	pt := pointee(v.Type())
	if pt == nil {
		return "?", nil, "", nil
	}
	if isArrayT(pt) {
		return "E", nil, x.vc.heapKey("E", pt.Underlying().(*types.Array).Elem()), nil
	}
	return "H", nil, x.vc.heapKey("H", pt), nil
}

func (x *Exec) loopMods(fr *Frame, li *loopInfo) {
	if li.modCells != nil {
		return
	}
	li.modCells = map[*ssa.Alloc]bool{}
	li.modKeys = map[string]bool{}
	li.modGlob = map[*ssa.Global]bool{}
	li.ghostMod = map[string]bool{}
	for b := range li.blocks {
		for _, in := range b.Instrs {
			switch i := in.(type) {
			case *ssa.Alloc:
				li.allocates = true
				if !i.Heap && !isArrayT(pointee(i.Type())) {
					li.modCells[i] = true
				}
			case *ssa.MakeSlice, *ssa.MakeMap, *ssa.MakeChan, *ssa.MakeInterface, *ssa.MakeClosure:
				li.allocates = true
				if mm, ok := in.(*ssa.MakeMap); ok {
					li.modKeys[x.vc.heapKey("MH", mm.Type())] = true
					li.modKeys[x.vc.heapKey("MV", mm.Type())] = true
					li.modKeys[x.vc.heapKey("MC", mm.Type())] = true
				}
				if ms, ok := in.(*ssa.MakeSlice); ok {
					li.modKeys[x.vc.heapKey("E", ms.Type().Underlying().(*types.Slice).Elem())] = true
				}
			case *ssa.Store:
				k, c, key, g := x.addrRoot(i.Addr)
				switch k {
				case "cell":
					li.modCells[c] = true
				case "H", "E":
					li.modKeys[key] = true
				case "G":
					li.modGlob[g] = true
				default:
					li.modAll = true
				}
			case *ssa.MapUpdate:
				mt := i.Map.Type()
				li.modKeys[x.vc.heapKey("MH", mt)] = true
				li.modKeys[x.vc.heapKey("MV", mt)] = true
				li.modKeys[x.vc.heapKey("MC", mt)] = true
			case ssa.CallInstruction:
				x.callMods(fr, i, li)
			}
		}
	}
	// ghost updates declared at sites inside the loop are handled by callMods/at-specs
}

// callMods accumulates what a call instruction may modify.
func (x *Exec) callMods(fr *Frame, ci ssa.CallInstruction, li *loopInfo) {
	c := ci.Common()
	if _, isGo := ci.(*ssa.Go); isGo {
		li.allocates = true
		return
	}
	if b, ok := c.Value.(*ssa.Builtin); ok {
		switch b.Name() {
		case "append":
			li.allocates = true
			li.modKeys[x.vc.heapKey("E", c.Args[0].Type().Underlying().(*types.Slice).Elem())] = true
		case "copy":
			li.modKeys[x.vc.heapKey("E", c.Args[0].Type().Underlying().(*types.Slice).Elem())] = true
		case "delete", "clear":
			mt := c.Args[0].Type()
			if _, ok := mt.Underlying().(*types.Map); ok {
				li.modKeys[x.vc.heapKey("MH", mt)] = true
				li.modKeys[x.vc.heapKey("MV", mt)] = true
				li.modKeys[x.vc.heapKey("MC", mt)] = true
			} else {
				li.modAll = true
			}
		}
		return
	}
	li.allocates = true
	// calls declared pure at their site in the function's own contract
	if fr.ct != nil && fr.inlineTag == "" {
		if in, ok := ci.(ssa.Instruction); ok && in.Parent() == fr.fn {
			site := fmt.Sprintf("call:%s#%d", shortCallee(c), fr.siteOrd("call:"+shortCallee(c), in))
			for _, a := range fr.ct.Ats {
				if a.Site == site && a.Kind == "pure" {
					return
				}
			}
		}
	}
	ct, callee := x.eng.contractForCall(fr.fn, c)
	if ct == nil {
		if callee != nil && x.eng.isInlineCandidate(callee) {
			// inlined: analyse its body
			sub := &loopInfo{blocks: map[*ssa.BasicBlock]bool{}}
			for _, b := range callee.Blocks {
				sub.blocks[b] = true
			}
			x.loopMods(fr, sub)
			for k := range sub.modKeys {
				li.modKeys[k] = true
			}
			for g := range sub.modGlob {
				li.modGlob[g] = true
			}
			if sub.modAll {
				li.modAll = true
			}
			return
		}
		if callee != nil && !x.eng.isRepoFunc(callee) {
			for _, k := range x.typeReachKeys(c) {
				if k == "*" {
					li.modAll = true
				} else {
					li.modKeys[k] = true
				}
			}
			return
		}
		li.modAll = true
		return
	}
	if ct.Inline && callee != nil {
		sub := &loopInfo{blocks: map[*ssa.BasicBlock]bool{}}
		for _, b := range callee.Blocks {
			sub.blocks[b] = true
		}
		x.loopMods(fr, sub)
		for k := range sub.modKeys {
			li.modKeys[k] = true
		}
		for g := range sub.modGlob {
			li.modGlob[g] = true
		}
		for g := range sub.ghostMod {
			li.ghostMod[g] = true
		}
		if sub.modAll {
			li.modAll = true
		}
		return
	}
	if !ct.HasMod || ct.ModAll {
		li.modAll = true
		return
	}
	_ = 0
	for _, m := range ct.Modifies {
		keys, ghost, err := x.eng.modClauseKeys(x.vc, ct, callee, c, m)
		if err != nil {
			x.eng.fatalf("%s: modifies %q: %v", ct.Src, m, err)
		}
		for _, k := range keys {
			li.modKeys[k] = true
		}
		if ghost != "" {
			li.ghostMod[ghost] = true
		}
	}
	for _, m := range ct.Havoc {
		li.ghostMod[strings.TrimSpace(m)] = true
	}
}

// heap keys type-reachable from the arguments of an uncontracted external call
func (x *Exec) typeReachKeys(c *ssa.CallCommon) []string {
	seen := map[string]bool{}
	var out []string
	all := false
	var visit func(t types.Type, depth int)
	visit = func(t types.Type, depth int) {
		if all || depth > 6 {
			return
		}
		k := typeKey(t)
		if seen[k] {
			return
		}
		seen[k] = true
		switch u := t.Underlying().(type) {
		case *types.Pointer:
			et := u.Elem()
			if isArrayT(et) {
				out = append(out, x.vc.heapKey("E", et.Underlying().(*types.Array).Elem()))
			} else {
				out = append(out, x.vc.heapKey("H", et))
			}
			visit(et, depth+1)
		case *types.Slice:
			out = append(out, x.vc.heapKey("E", u.Elem()))
			visit(u.Elem(), depth+1)
		case *types.Map:
			out = append(out, x.vc.heapKey("MH", t), x.vc.heapKey("MV", t), x.vc.heapKey("MC", t))
			visit(u.Elem(), depth+1)
		case *types.Struct:
			for i := 0; i < u.NumFields(); i++ {
				visit(u.Field(i).Type(), depth+1)
			}
		case *types.Array:
			visit(u.Elem(), depth+1)
		case *types.Interface, *types.Signature:
			all = true
		}
	}
	args := c.Args
	for _, a := range args {
		visit(a.Type(), 0)
	}
	if c.IsInvoke() {
		all = true
	}
	if all {
		return []string{"*"}
	}
	return out
}

// ------------------------------------------------------------------ run

func (x *Exec) newFrame(fn *ssa.Function, ct *FuncContract, top bool, depth int) *Frame {
	fr := &Frame{x: x, fn: fn, regs: map[ssa.Value]Val{}, ct: ct, top: top, depth: depth,
		names: map[string]ssa.Value{}, paramVal: map[string]Val{}, ord: map[string]int{}, ghostLoc: map[string]string{}, ghostTyp: map[string]types.Type{}}
	fr.loops = computeLoops(fn)
	fr.unit = x.eng.unitName(fn)
	for _, p := range fn.Params {
		fr.names[p.Name()] = p
	}
	for _, fv := range fn.FreeVars {
		fr.names[fv.Name()] = fv
	}
	for _, b := range fn.Blocks {
		for _, in := range b.Instrs {
			if a, ok := in.(*ssa.Alloc); ok && a.Comment != "" && a.Comment != "complit" && a.Comment != "varargs" {
				if _, dup := fr.names[a.Comment]; !dup {
					fr.names[a.Comment] = a
				} else if _, isParam := fr.names[a.Comment].(*ssa.Parameter); isParam {
					fr.names[a.Comment] = a // the spilled parameter cell
				} else {
					// shadowed duplicates: name#k
					for k := 2; ; k++ {
						nm := fmt.Sprintf("%s#%d", a.Comment, k)
						if _, dup := fr.names[nm]; !dup {
							fr.names[nm] = a
							break
						}
					}
				}
			}
		}
	}
	if ct != nil {
		fr.nopanic = ct.NoPanic
		fr.math = ct.Math
	}
	return fr
}

func (x *Exec) cellType(a *ssa.Alloc) types.Type { return pointee(a.Type()) }

// run executes the function body from state st with the given argument values.
// It returns the return points (state + results).
func (x *Exec) run(fr *Frame, st *State, args []Val, bindings []Val) {
	fn := fr.fn
	for i, p := range fn.Params {
		fr.regs[p] = args[i]
		fr.paramVal[p.Name()] = args[i]
	}
	for i, fv := range fn.FreeVars {
		fr.regs[fv] = bindings[i]
	}
	if fr.onEntry != nil {
		fr.onEntry(st)
	} else {
		fr.entry = st.clone()
	}
	if len(fn.Blocks) == 0 {
		x.eng.fatalf("function %s has no body", fn)
	}
	incoming := map[*ssa.BasicBlock][]edgeState{}
	order := rpo(fn)
	for _, b := range order {
		var cur *State
		if b == fn.Blocks[0] {
			cur = st
		} else {
			ins := incoming[b]
			if len(ins) == 0 {
				continue
			}
			cur = x.vc.merge(ins, fmt.Sprintf("b%d", b.Index), x.cellType)
			// phis
			for _, in := range b.Instrs {
				phi, ok := in.(*ssa.Phi)
				if !ok {
					break
				}
				var vals []string
				var pcs []string
				for _, e := range ins {
					for pi, p := range b.Preds {
						if p == e.from {
							v := x.value(fr, e.st, phi.Edges[pi])
							vals = append(vals, x.term(fr, e.st, v))
							pcs = append(pcs, e.st.pc)
							break
						}
					}
				}
				t := vals[len(vals)-1]
				for i := len(vals) - 2; i >= 0; i-- {
					if vals[i] != t {
						t = fmt.Sprintf("(ite %s %s %s)", pcs[i], vals[i], t)
					}
				}
				fr.regs[phi] = Val{T: x.vc.define("phi", x.vc.sortOf(phi.Type()), t)}
			}
		}
		if li := fr.loops[b]; li != nil {
			cur = x.enterLoop(fr, li, cur, incoming[b])
		}
		x.execBlock(fr, b, cur, incoming)
	}
}

func rpo(fn *ssa.Function) []*ssa.BasicBlock {
	seen := map[*ssa.BasicBlock]bool{}
	var post []*ssa.BasicBlock
	var dfs func(b *ssa.BasicBlock)
	dfs = func(b *ssa.BasicBlock) {
		seen[b] = true
		for _, s := range b.Succs {
			if !seen[s] && !isBackEdge(b, s) {
				dfs(s)
			}
		}
		post = append(post, b)
	}
	dfs(fn.Blocks[0])
	// a topological order of the forward-edge DAG
	for i, j := 0, len(post)-1; i < j; i, j = i+1, j-1 {
		post[i], post[j] = post[j], post[i]
	}
	return post
}

// enterLoop cuts the loop at its header.
func (x *Exec) enterLoop(fr *Frame, li *loopInfo, cur *State, ins []edgeState) *State {
	x.loopMods(fr, li)
	var spec *LoopSpec
	if fr.ct != nil {
		spec = fr.ct.Loops[li.ordinal]
	}
	if spec == nil {
		if !fr.top {
			x.eng.fatalf("%s: loop %d in inlined function %s has no invariant", fr.unit, li.ordinal, fr.fn)
		}
		spec = &LoopSpec{}
		x.vc.notes = append(x.vc.notes, fmt.Sprintf("%s: loop %d has no declared invariant (only automatic facts)", fr.unit, li.ordinal))
	}
	// 1. invariants hold on entry (phis already hold their entry values)
	autos := x.autoInvariants(fr, li)
	for k, inv := range autos {
		g := inv(cur)
		x.vc.oblige(fmt.Sprintf("%s/inv-entry:loop%d#auto%d", fr.unit, li.ordinal, k), "inv-entry", fr.unit, x.pos(li.minPos), "automatic loop bound invariant", cur.pc, g)
	}
	for k, inv := range spec.Invariants {
		g := x.evalClause(fr, cur, inv, x.iterVars(fr, cur, li))
		x.vc.oblige(fmt.Sprintf("%s/inv-entry:loop%d#%s", fr.unit, li.ordinal, clauseID(inv, k)), "inv-entry", fr.unit, x.pos(li.minPos), inv.Text, cur.pc, g)
	}
	if os.Getenv("GOVC_DEBUG") != "" {
		var ks []string
		for _, k := range sortedKeys(li.modKeys) {
			ks = append(ks, x.vc.heapNames[k]+"="+k)
		}
		var cs []string
		for c := range li.modCells {
			cs = append(cs, c.Comment)
		}
		fmt.Fprintf(os.Stderr, "DEBUG %s loop%d header b%d blocks=%d modAll=%v keys=%v cells=%v ghost=%v\n", fr.unit, li.ordinal, li.header.Index, len(li.blocks), li.modAll, ks, cs, li.ghostMod)
	}
	// 2. havoc
	before := cur.clone()
	hv := cur
	hv.pc = x.vc.freshDef("pc_loop", "Bool", cur.pc)
	if li.modAll {
		skip := map[*ssa.Alloc]bool{}
		for b := range li.blocks {
			for _, in := range b.Instrs {
				if s, ok := in.(*ssa.Store); ok {
					root := s.Addr
					for {
						if fa, ok := root.(*ssa.FieldAddr); ok {
							root = fa.X
							continue
						}
						if ia, ok := root.(*ssa.IndexAddr); ok {
							root = ia.X
							continue
						}
						break
					}
					if a, ok := root.(*ssa.Alloc); ok {
						skip[a] = true
					}
				}
			}
		}
		for _, c := range x.priv {
			if closureWrites(c.fr.fn, c.alloc) {
				skip[c.alloc] = true
			}
		}
		x.havocAllKeep(hv, skip)
	} else {
		for _, k := range sortedKeys(li.modKeys) {
			hv.heap[k] = x.vc.freshConst("hv_"+x.vc.heapNames[k], x.vc.heapSorts[k])
		}
		for g := range li.modGlob {
			et := g.Type().(*types.Pointer).Elem()
			hv.globals[g] = x.vc.freshConst("hv_"+g.Name(), x.vc.sortOf(et))
			x.vc.assumeTyped(hv, hv.globals[g], et)
		}
		for g := range li.ghostMod {
			srt := "Int"
			if s, ok := x.eng.ghostSorts[g]; ok {
				srt = s
			}
			hv.ghost[g] = x.vc.freshConst("hv_ghost_"+g, srt)
		}
		if li.allocates {
			old := hv.alloc
			hv.alloc = x.vc.freshConst("alloc", "Int")
			x.vc.assume(hv.pc, fmt.Sprintf("(>= %s %s)", hv.alloc, old))
		}
	}
	// heap locations that an at-site `havoc <lvalue>` clause inside the loop forgets
	// are loop-carried as well (also past a `preserves` assumption)
	if fr.ct != nil && fr.inlineTag == "" {
		for _, at := range fr.ct.Ats {
			if at.Kind == "set" && fr.siteMayBeInLoop(li, at.Site) {
				// a ghost field set inside the loop is loop-carried
				if key, _, _, isField := x.ghostFieldLval(fr, nil, strings.TrimSpace(strings.SplitN(at.Clause.Text, "=", 2)[0])); isField {
					hv.heap[key] = x.vc.freshConst("hv_"+x.vc.heapNames[key], x.vc.heapSorts[key])
				}
				continue
			}
			if at.Kind != "havoc" || !fr.siteMayBeInLoop(li, at.Site) {
				continue
			}
			if _, isGhost := fr.ghostLoc[strings.TrimSpace(at.Clause.Text)]; isGhost {
				continue
			}
			ctx := x.ownCtx(fr, hv, true)
			ctx.src = at.Clause.Src
			lv := ctx.lvalue(strings.TrimSpace(at.Clause.Text))
			if lv.key != "" {
				if _, ok := x.vc.heapSorts[lv.key]; ok {
					hv.heap[lv.key] = x.vc.freshConst("hv_"+x.vc.heapNames[lv.key], x.vc.heapSorts[lv.key])
				}
			}
		}
	}
	for g := range fr.ghostLoc {
		// ghost locals that some at-clause may set inside the loop are loop-carried
		if !fr.ghostSetInLoop(li, g) {
			continue
		}
		hv.ghost["local:"+g] = x.vc.freshConst("hv_ghost_"+g, fr.ghostLoc[g])
	}
	for c := range li.modCells {
		if _, live := hv.cells[c]; !live {
			continue // allocated inside the loop: initialised before use
		}
		t := x.cellType(c)
		hv.cells[c] = x.vc.freshConst("hv_"+c.Comment, x.vc.sortOf(t))
		x.vc.assumeTyped(hv, hv.cells[c], t)
	}
	for _, in := range li.header.Instrs {
		phi, ok := in.(*ssa.Phi)
		if !ok {
			break
		}
		v := x.vc.freshConst("hv_phi", x.vc.sortOf(phi.Type()))
		fr.regs[phi] = Val{T: v}
		x.vc.assumeTyped(hv, v, phi.Type())
	}
	_ = before
	x.assumeGlobalInvs(fr, hv)
	// 3. assume invariants
	for _, inv := range autos {
		x.vc.assume(hv.pc, inv(hv))
	}
	for _, inv := range spec.Invariants {
		x.vc.assume(hv.pc, x.evalClause(fr, hv, inv, x.iterVars(fr, hv, li)))
	}
	// automatic frame invariant: what the modifies clause protects is still
	// unchanged at the loop head (checked on entry and on every back edge)
	if x.autoFrame(fr) && !li.modAll {
		for _, k := range sortedKeys(li.modKeys) {
			if g := x.frameGoal(fr, k, before); g != "" {
				x.vc.oblige(fmt.Sprintf("%s/inv-entry:loop%d#frame:%s", fr.unit, li.ordinal, x.vc.heapNames[k]), "inv-entry", fr.unit, x.pos(li.minPos), "automatic frame invariant", before.pc, g)
			}
			if g := x.frameGoal(fr, k, hv); g != "" {
				x.vc.assume(hv.pc, g)
			}
		}
	}
	for _, u := range spec.Uses {
		x.useLemma(fr, hv, u)
	}
	if spec.Decreases != nil {
		li.decTerm = x.vc.freshDef("measure", "Int", x.evalClauseInt(fr, hv, *spec.Decreases, x.iterVars(fr, hv, li)))
	}
	return hv
}

// iterVars exposes the hidden index of range loops: `iter` is the number of
// completed iterations of the loop the clause belongs to, `iterN` that of loop N.
func (x *Exec) iterVars(fr *Frame, st *State, cur *loopInfo) map[string]Val {
	out := map[string]Val{}
	for _, li := range fr.loops {
		cell, _ := rangeCell(li)
		if cell == nil {
			continue
		}
		v, has := st.cells[cell]
		if !has {
			continue
		}
		t := Val{T: fmt.Sprintf("(+ %s 1)", v)}
		out[fmt.Sprintf("iter%d", li.ordinal)] = t
		if li == cur {
			out["iter"] = t
		}
	}
	return out
}

func clauseID(c Clause, k int) string {
	if c.Label != "" {
		return c.Label
	}
	return fmt.Sprint(k)
}

// rangeCell finds the hidden index cell of a range-over-slice/int loop
// (NaiveForm keeps it as a local named "rangeindex") and the length value.
func rangeCell(li *loopInfo) (*ssa.Alloc, ssa.Value) {
	var cell *ssa.Alloc
	var lenV ssa.Value
	for _, in := range li.header.Instrs {
		if s, ok := in.(*ssa.Store); ok {
			if a, ok := s.Addr.(*ssa.Alloc); ok && a.Comment == "rangeindex" {
				cell = a
			}
		}
		if bo, ok := in.(*ssa.BinOp); ok && bo.Op == token.LSS {
			lenV = bo.Y
		}
	}
	if cell == nil || lenV == nil {
		return nil, nil
	}
	return cell, lenV
}

// autoInvariants: bounds of the hidden range index.
func (x *Exec) autoInvariants(fr *Frame, li *loopInfo) []func(*State) string {
	var out []func(*State) string
	cell, lenV := rangeCell(li)
	if cell == nil {
		return nil
	}
	out = append(out, func(st *State) string {
		pt, ok := st.cells[cell]
		if !ok {
			return "true"
		}
		lt := x.term(fr, st, x.value(fr, st, lenV))
		return fmt.Sprintf("(and (<= (- 1) %s) (or (< %s %s) (= %s (- 1))))", pt, pt, lt, pt)
	})
	return out
}

// backEdge checks invariant preservation along a back edge.
func (x *Exec) backEdge(fr *Frame, li *loopInfo, from *ssa.BasicBlock, st *State) {
	var spec *LoopSpec
	if fr.ct != nil {
		spec = fr.ct.Loops[li.ordinal]
	}
	if spec == nil {
		spec = &LoopSpec{}
	}
	// phis take their back-edge values
	saved := map[*ssa.Phi]Val{}
	for _, in := range li.header.Instrs {
		phi, ok := in.(*ssa.Phi)
		if !ok {
			break
		}
		saved[phi] = fr.regs[phi]
	}
	newv := map[*ssa.Phi]Val{}
	for phi := range saved {
		for pi, p := range li.header.Preds {
			if p == from {
				newv[phi] = Val{T: x.term(fr, st, x.value(fr, st, phi.Edges[pi]))}
			}
		}
	}
	for phi, v := range newv {
		fr.regs[phi] = v
	}
	autos := x.autoInvariants(fr, li)
	for k, inv := range autos {
		x.vc.oblige(fmt.Sprintf("%s/inv-preserved:loop%d#auto%d", fr.unit, li.ordinal, k), "inv-preserved", fr.unit, x.pos(li.minPos), "automatic loop bound invariant", st.pc, inv(st))
	}
	for k, inv := range spec.Invariants {
		g := x.evalClause(fr, st, inv, x.iterVars(fr, st, li))
		x.vc.oblige(fmt.Sprintf("%s/inv-preserved:loop%d#%s", fr.unit, li.ordinal, clauseID(inv, k)), "inv-preserved", fr.unit, x.pos(li.minPos), inv.Text, st.pc, g)
	}
	if spec.Decreases != nil && li.decTerm != "" {
		m := x.evalClauseInt(fr, st, *spec.Decreases, x.iterVars(fr, st, li))
		x.vc.oblige(fmt.Sprintf("%s/decreases:loop%d", fr.unit, li.ordinal), "decreases", fr.unit, x.pos(li.minPos), "termination measure "+spec.Decreases.Text+" decreases and is bounded below", st.pc,
			fmt.Sprintf("(and (>= %s 0) (< %s %s))", li.decTerm, m, li.decTerm))
	}
	if x.autoFrame(fr) && !li.modAll {
		for _, k := range sortedKeys(li.modKeys) {
			if g := x.frameGoal(fr, k, st); g != "" {
				x.vc.oblige(fmt.Sprintf("%s/inv-preserved:loop%d#frame:%s", fr.unit, li.ordinal, x.vc.heapNames[k]), "inv-preserved", fr.unit, x.pos(li.minPos), "automatic frame invariant", st.pc, g)
			}
		}
	}
	for phi, v := range saved {
		fr.regs[phi] = v
	}
}

func (x *Exec) autoFrame(fr *Frame) bool {
	return fr.top && fr.ct != nil && fr.ct.HasMod && !fr.ct.ModAll && fr.entry != nil
}

func (x *Exec) execBlock(fr *Frame, b *ssa.BasicBlock, st *State, incoming map[*ssa.BasicBlock][]edgeState) {
	for _, in := range b.Instrs {
		switch i := in.(type) {
		case *ssa.If:
			c := x.term(fr, st, x.value(fr, st, i.Cond))
			for k, s := range b.Succs {
				es := st.clone()
				cond := c
				if k == 1 {
					cond = "(not " + c + ")"
				}
				es.pc = x.vc.freshDef(fmt.Sprintf("pc_b%d_%d", b.Index, k), "Bool", fmt.Sprintf("(and %s %s)", st.pc, cond))
				x.edge(fr, b, s, es, incoming)
			}
			return
		case *ssa.Jump:
			x.edge(fr, b, b.Succs[0], st, incoming)
			return
		case *ssa.Return:
			var rs []Val
			rv := map[string]Val{}
			rt := map[string]types.Type{}
			for k, r := range i.Results {
				v := x.value(fr, st, r)
				rs = append(rs, Val{T: x.term(fr, st, v), Clo: v.Clo})
				nm := fmt.Sprintf("ret%d", k)
				if len(i.Results) == 1 {
					nm = "ret"
				}
				rv[nm] = rs[k]
				rt[nm] = r.Type()
			}
			x.atSite(fr, st, "return", -1, rv, rt)
			fr.rets = append(fr.rets, retInfo{st: st, results: rs, pos: i.Pos()})
			return
		case *ssa.Panic:
			if fr.nopanic {
				x.vc.oblige(fmt.Sprintf("%s/explicit-panic%s", fr.unit, x.ordTag(fr, "panic", i.Pos())), "explicit-panic", fr.unit, x.pos(i.Pos()), "panic statement unreachable", st.pc, "false")
			} else {
				fr.nextOrd("panic")
			}
			fr.panics = append(fr.panics, st)
			return
		default:
			x.instr(fr, st, in)
		}
	}
}

func (x *Exec) edge(fr *Frame, from, to *ssa.BasicBlock, st *State, incoming map[*ssa.BasicBlock][]edgeState) {
	if isBackEdge(from, to) {
		li := fr.loops[to]
		if li == nil {
			x.eng.fatalf("back edge to non-header in %s", fr.fn)
		}
		x.backEdge(fr, li, from, st)
		return
	}
	incoming[to] = append(incoming[to], edgeState{from: from, st: st})
}

// ------------------------------------------------------------------ values

func (x *Exec) value(fr *Frame, st *State, v ssa.Value) Val {
	switch c := v.(type) {
	case *ssa.Const:
		return Val{T: x.constTerm(c)}
	case *ssa.Global:
		return Val{Loc: &Loc{kind: lGlobal, global: c, rootT: pointee(c.Type()), typ: pointee(c.Type())}}
	case *ssa.Function:
		return Val{T: x.funcID(c)}
	case *ssa.Builtin:
		return Val{T: "0"}
	}
	if r, ok := fr.regs[v]; ok {
		return r
	}
	x.eng.fatalf("%s: value %s (%T) used before definition", fr.fn, v.Name(), v)
	return Val{}
}

func (x *Exec) funcID(f *ssa.Function) string {
	// functions as values: interned negative ids
	return x.vc.strConst("func:" + f.String())
}

func (x *Exec) constTerm(c *ssa.Const) string {
	t := c.Type()
	if c.Value == nil {
		return x.vc.zeroOf(t)
	}
	switch c.Value.Kind() {
	case constant.Bool:
		if constant.BoolVal(c.Value) {
			return "true"
		}
		return "false"
	case constant.String:
		return x.vc.strConst(constant.StringVal(c.Value))
	case constant.Int:
		if b, ok := t.Underlying().(*types.Basic); ok && b.Info()&types.IsFloat != 0 {
			f, _ := constant.Float64Val(c.Value)
			if f == 0 {
				return "0"
			}
			return x.vc.floatConst(fmt.Sprint(f))
		}
		bi, _ := new(bigInt).SetString(c.Value.ExactString(), 10)
		return smtInt(bi)
	case constant.Float:
		f, _ := constant.Float64Val(c.Value)
		if f == 0 {
			return "0"
		}
		return x.vc.floatConst(fmt.Sprint(f))
	}
	return x.vc.freshConst("const", x.vc.sortOf(t))
}

// term converts a Val to an SMT term; addresses are materialised.
func (x *Exec) term(fr *Frame, st *State, v Val) string {
	if v.Loc != nil {
		return x.materialise(fr, st, v.Loc)
	}
	if v.Tup != nil {
		x.eng.fatalf("tuple used as term in %s", fr.fn)
	}
	return v.T
}

// materialise turns an address into a pointer term.  Whole heap objects are
// their pointer; interior addresses are modelled by copy-in (a fresh object
// holding the current content), recorded as an abstraction.
func (x *Exec) materialise(fr *Frame, st *State, l *Loc) string {
	if l.kind == lHeap && len(l.path) == 0 {
		return l.ptr
	}
	x.vc.abstracted = append(x.vc.abstracted, fmt.Sprintf("%s: interior/local address passed by copy-in", fr.unit))
	cur := x.load(fr, st, l)
	if isArrayT(l.typ) {
		et := l.typ.Underlying().(*types.Array).Elem()
		id := x.allocID(st)
		k := x.vc.heapKey("E", et)
		st.heap[k] = fmt.Sprintf("(store %s %s %s)", x.vc.heapGet(st, k), id, cur)
		return id
	}
	id := x.allocID(st)
	k := x.vc.heapKey("H", l.typ)
	st.heap[k] = fmt.Sprintf("(store %s %s %s)", x.vc.heapGet(st, k), id, cur)
	return id
}

func (x *Exec) allocID(st *State) string {
	id := x.vc.freshDef("new", "Int", st.alloc)
	st.alloc = fmt.Sprintf("(+ %s 1)", id)
	x.vc.assume("true", fmt.Sprintf("(> %s 0)", id))
	return id
}

// ------------------------------------------------------------------ memory

func (x *Exec) rootLoad(st *State, l *Loc) string {
	switch l.kind {
	case lCell:
		if v, ok := st.cells[l.cell]; ok {
			return v
		}
		return x.vc.zeroOf(x.cellType(l.cell))
	case lHeap:
		return fmt.Sprintf("(select %s %s)", x.vc.heapGet(st, l.key), l.ptr)
	case lElem:
		return fmt.Sprintf("(select (select %s %s) %s)", x.vc.heapGet(st, l.key), l.ptr, l.idx)
	case lGlobal:
		return x.vc.globalGet(st, l.global)
	}
	panic("rootLoad")
}

func (x *Exec) rootStore(st *State, l *Loc, v string) {
	switch l.kind {
	case lCell:
		st.cells[l.cell] = v
	case lHeap:
		st.heap[l.key] = x.vc.define("h", x.vc.heapSorts[l.key], fmt.Sprintf("(store %s %s %s)", x.vc.heapGet(st, l.key), l.ptr, v))
	case lElem:
		h := x.vc.heapGet(st, l.key)
		st.heap[l.key] = x.vc.define("h", x.vc.heapSorts[l.key], fmt.Sprintf("(store %s %s (store (select %s %s) %s %s))", h, l.ptr, h, l.ptr, l.idx, v))
	case lGlobal:
		st.globals[l.global] = v
	}
}

func (x *Exec) applyPath(base string, path []sel) string {
	t := base
	for _, s := range path {
		if s.field >= 0 {
			t = x.vc.fieldSel(s.structT, s.field, t)
		} else {
			t = fmt.Sprintf("(select %s %s)", t, s.idx)
		}
	}
	return t
}

func (x *Exec) updatePath(base string, path []sel, v string) string {
	if len(path) == 0 {
		return v
	}
	s := path[0]
	if s.field >= 0 {
		inner := x.updatePath(x.vc.fieldSel(s.structT, s.field, base), path[1:], v)
		return x.vc.fieldUpd(s.structT, s.field, base, inner)
	}
	inner := x.updatePath(fmt.Sprintf("(select %s %s)", base, s.idx), path[1:], v)
	return fmt.Sprintf("(store %s %s %s)", base, s.idx, inner)
}

func (x *Exec) load(fr *Frame, st *State, l *Loc) string {
	t := x.applyPath(x.rootLoad(st, l), l.path)
	if l.kind != lCell {
		if _, isStruct := l.typ.Underlying().(*types.Struct); !isStruct || len(l.path) > 0 || true {
			for _, f := range x.vc.typeFacts(t, l.typ, st.alloc, 1) {
				x.vc.assume(st.pc, f)
			}
		}
	}
	return t
}

func (x *Exec) store(fr *Frame, st *State, l *Loc, v string) {
	base := x.rootLoad(st, l)
	nv := x.updatePath(base, l.path, v)
	x.rootStore(st, l, nv)
}

// nilCheck emits the nil-dereference obligation (nopanic) or assumes non-nil.
func (x *Exec) nilCheck(fr *Frame, st *State, ptr string, pos token.Pos, what string) {
	if ptr == "" {
		return
	}
	g := fmt.Sprintf("(not (= %s 0))", ptr)
	if fr.nopanic {
		x.vc.oblige(fmt.Sprintf("%s/nil-deref%s", fr.unit, x.ordTag(fr, "nil", pos)), "nil-deref", fr.unit, x.pos(pos), what, st.pc, g)
	} else {
		fr.nextOrd("nil")
		x.vc.assume(st.pc, g)
	}
}

func (x *Exec) boundsCheck(fr *Frame, st *State, idx, n string, pos token.Pos, what string) {
	g := fmt.Sprintf("(and (<= 0 %s) (< %s %s))", idx, idx, n)
	if fr.nopanic {
		x.vc.oblige(fmt.Sprintf("%s/index%s", fr.unit, x.ordTag(fr, "index", pos)), "index", fr.unit, x.pos(pos), what, st.pc, g)
	} else {
		fr.nextOrd("index")
		x.vc.assume(st.pc, g)
	}
}

// addrOf computes the Loc for an address-typed SSA value.
func (x *Exec) locOf(fr *Frame, st *State, v ssa.Value, pos token.Pos) *Loc {
	val := x.value(fr, st, v)
	if val.Loc != nil {
		return val.Loc
	}
	pt := pointee(v.Type())
	if pt == nil {
		x.eng.fatalf("%s: locOf non-pointer %s", fr.fn, v)
	}
	if isArrayT(pt) {
		// an array is one block of the element heap; its value is the block
		if !val.ArrBlock {
			x.nilCheck(fr, st, val.T, pos, "dereference of "+v.Name())
		}
		return &Loc{kind: lHeap, key: x.vc.heapKey("E", pt.Underlying().(*types.Array).Elem()), ptr: val.T, rootT: pt, typ: pt}
	}
	x.nilCheck(fr, st, val.T, pos, "dereference of "+v.Name())
	return &Loc{kind: lHeap, key: x.vc.heapKey("H", pt), ptr: val.T, rootT: pt, typ: pt}
}

type bigInt = big.Int

// ghostSetInLoop: may an `at <site> set g = ...` clause fire inside loop li?
// Call sites are matched by callee name (any ordinal); other site kinds are
// treated conservatively (yes), except `return`, which leaves the loop.
func (fr *Frame) ghostSetInLoop(li *loopInfo, g string) bool {
	if fr.ct == nil {
		return true
	}
	for _, at := range fr.ct.Ats {
		if at.Kind != "set" && at.Kind != "havoc" {
			continue
		}
		lhs := strings.TrimSpace(strings.SplitN(at.Clause.Text, "=", 2)[0])
		if lhs != g {
			continue
		}
		if fr.siteMayBeInLoop(li, at.Site) {
			return true
		}
	}
	return false
}

// siteMayBeInLoop: may the named at-site occur inside loop li?
func (fr *Frame) siteMayBeInLoop(li *loopInfo, atSite string) bool {
	{
		site := strings.TrimPrefix(atSite, "before:")
		if site == "return" {
			return false
		}
		if !strings.HasPrefix(site, "call:") {
			return true
		}
		name := site
		ord := "*"
		if i := strings.LastIndex(name, "#"); i >= 0 {
			ord = name[i+1:]
			name = name[:i]
		}
		name = strings.TrimPrefix(name, "call:")
		for b := range li.blocks {
			for _, in := range b.Instrs {
				var cc *ssa.CallCommon
				switch v := in.(type) {
				case *ssa.Call:
					cc = &v.Call
				case *ssa.Defer:
					cc = &v.Call
				case *ssa.Go:
					cc = &v.Call
				}
				if cc == nil {
					continue
				}
				sn := shortCallee(cc)
				if sn == name {
					// a specific ordinal names one call instruction
					if ord == "*" || ord == fmt.Sprint(fr.siteOrd("call:"+sn, in)) {
						return true
					}
					continue
				}
				if d := strings.Index(sn, "."); d > 0 && name == sn[:d]+".*" {
					if k, ok := fr.recvOrds[in]; ord == "*" || (ok && ord == fmt.Sprint(k)) {
						return true
					}
				}
			}
		}
	}
	return false
}

// ordTag names a safety obligation within its unit.  Units under contract use
// the ordinal among the obligations of that kind (#k).  Zero-annotation sweep
// units are matched against a baseline of undecided obligations, so their
// names must survive unrelated edits of the file: they use a hash of the
// source line's text and the occurrence number among equal lines (@h.k).
func (x *Exec) ordTag(fr *Frame, kind string, pos token.Pos) string {
	n := fr.nextOrd(kind)
	if x.top == nil || x.top.ct == nil || !x.top.ct.Sweep || !pos.IsValid() {
		return fmt.Sprintf("#%d", n)
	}
	ps := x.eng.fset.Position(pos)
	text := x.eng.sourceLine(ps.Filename, ps.Line)
	sum := sha1.Sum([]byte(strings.Join(strings.Fields(text), " ")))
	h := hex.EncodeToString(sum[:])[:6]
	return fmt.Sprintf("@%s.%d", h, fr.nextOrd("h:"+kind+h))
}

func (e *Engine) sourceLine(file string, line int) string {
	if e.srcLines == nil {
		e.srcLines = map[string][]string{}
	}
	ls, ok := e.srcLines[file]
	if !ok {
		data, _ := os.ReadFile(file)
		ls = strings.Split(string(data), "\n")
		e.srcLines[file] = ls
	}
	if line >= 1 && line <= len(ls) {
		return ls[line-1]
	}
	return ""
}
