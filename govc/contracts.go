package main

import (
	"bufio"
	"fmt"
	"os"
	"path/filepath"
	"regexp"
	"strconv"
	"strings"
)

type Clause struct {
	Text  string
	Label string
	Src   string
}

type LoopSpec struct {
	Decreases  *Clause
	Invariants []Clause
	Uses       []Clause // lemma uses at loop head (after assuming the invariant)
}

type AtSpec struct {
	Site    string // e.g. "go#0", "call:export#0", "return", "send#0", "unlock#1"
	Kind    string // assert | assume-ghost | use | requires | set
	Clause  Clause
}

type FuncContract struct {
	Key      string
	PkgPath  string // package whose scope the expressions are checked in
	Kind     string // func | iface
	Requires []Clause
	Ensures  []Clause
	Modifies []string
	HasMod   bool
	ModAll   bool
	Pure     bool
	Inline   bool
	NoPanic  bool
	Assumed  bool // contract on a dependency: never an obligation
	Trusted  bool // body not verified (stated in evidence)
	Panics   *Clause
	PanicEns []Clause // `panic ensures e`: holds when the function exits by its own panic (after its deferred calls)
	Loops    map[int]*LoopSpec
	Ats      []AtSpec
	Props    []string
	Src      string
	Expect   string // "fail": canary whose obligations must not all discharge
	Math     bool   // treat 64-bit arithmetic as mathematical (reported as assumption)
	Fresh    bool   // result is freshly allocated
	Deterministic bool // result is a function of the arguments only
	ReadsAll bool
	Alias    string
	Havoc    []string
	Ghost    []GhostVar
	Sweep     bool     // synthesised by a zero-annotation no-panic sweep
	UnboxNonNil bool   // assumption: pointers extracted from interface values are non-nil
	AssumePre   bool   // preconditions of callees are assumed, not checked, in this unit (reported)
	AssumePreFor []string // ... only for calls to these callees ("assumepre Recv.Method [A] reason")
	IterFn    string   // "iterates f count E": calls parameter f once per index 0..E-1, in order
	IterCount string
	IterAny   bool     // the iteration does not depend on f's result (RemoveIf): no early stop
	Yields    []Clause // facts about the arguments of the iter-th call (closure parameter names, iter)
	ModExcept []string // "modifies everything except T1, T2": type texts
	Preserves []string // types whose heaps uncontracted calls in this function never modify (assumption)
	used     bool
}

type GhostVar struct {
	Name string
	Type string
	Init string
}

type Pred struct {
	Name    string
	Params  string
	Result  string // result type text ("" = bool)
	Body    string
	PkgPath string
	Src     string
}

type UFDecl struct {
	Name    string
	Sig     string // Go signature text: "(x any) int"
	PkgPath string
	Src     string
	Axioms  []Clause
}

type GlobalInv struct {
	PkgPath string
	Clause  Clause
}

type Sweep struct {
	UnboxNonNil bool
	PkgPath string
	Props   []string
	Files   []string
	Src     string
}

type ContractDB struct {
	Effects    []EffectDirective
	Sweeps     []Sweep
	GlobalInvs []GlobalInv
	Funcs map[string]*FuncContract // key: pkgpath + " " + Key   (assumed: Key only, fully qualified)
	Preds map[string]*Pred         // pkgpath + " " + name
	UFs   map[string]*UFDecl
	Files []string
	Order []string
}

var clauseKeywords = map[string]bool{"func": true, "iface": true, "requires": true, "ensures": true, "modifies": true,
	"nopanic": true, "inline": true, "pure": true, "panics": true, "panic": true, "loop": true, "prop": true, "pred": true,
	"uf": true, "at": true, "assumed": true, "trusted": true, "expect": true, "math": true, "fresh": true,
	"axiom": true, "ghost": true, "havoc": true, "alias": true, "end": true,
	"ghostfield": true, "define": true, "view": true, "ghostscalar": true, "deterministic": true, "globalinv": true, "preserves": true, "sweep": true, "unboxnonnil": true, "assumepre": true, "iterates": true, "yields": true, "effects": true}

var labelRe = regexp.MustCompile(`^(requires|ensures|invariant)\[([A-Za-z0-9_.:-]+)\]`)

// parseContractFile reads //@ lines (prefix "//@") or bare lines (prefix "")
func (db *ContractDB) parseContractFile(path, pkgPath string, prefix string, assumed bool) error {
	f, err := os.Open(path)
	if err != nil {
		return err
	}
	defer f.Close()
	db.Files = append(db.Files, path)
	sc := bufio.NewScanner(f)
	sc.Buffer(make([]byte, 1<<20), 1<<20)
	type rawClause struct {
		text string
		line int
	}
	var raws []rawClause
	ln := 0
	for sc.Scan() {
		ln++
		line := sc.Text()
		t := strings.TrimSpace(line)
		if prefix != "" {
			if !strings.HasPrefix(t, prefix) {
				continue
			}
			t = strings.TrimSpace(strings.TrimPrefix(t, prefix))
		} else {
			if strings.HasPrefix(t, "#") || t == "" {
				continue
			}
		}
		if t == "" || strings.HasPrefix(t, "--") {
			continue
		}
		first := t
		if i := strings.IndexAny(t, " \t["); i >= 0 {
			first = t[:i]
		}
		if clauseKeywords[first] || len(raws) == 0 {
			raws = append(raws, rawClause{t, ln})
		} else {
			raws[len(raws)-1].text += " " + t
		}
	}
	var cur *FuncContract
	var curUF *UFDecl
	for _, rc := range raws {
		t := rc.text
		src := fmt.Sprintf("%s:%d", filepath.Base(filepath.Dir(path))+"/"+filepath.Base(path), rc.line)
		kw := t
		rest := ""
		if i := strings.IndexAny(t, " \t"); i >= 0 {
			kw = t[:i]
			rest = strings.TrimSpace(t[i+1:])
		}
		label := ""
		if m := labelRe.FindStringSubmatch(kw); m != nil {
			kw = m[1]
			label = m[2]
		}
		switch kw {
		case "func", "iface":
			cur = &FuncContract{Key: rest, PkgPath: pkgPath, Kind: kw, Loops: map[int]*LoopSpec{}, Src: src, Assumed: assumed}
			curUF = nil
			k := pkgPath + " " + rest
			if kw == "iface" {
				k = pkgPath + " iface " + rest
			}
			if assumed && prefix == "" {
				k = rest
				if kw == "iface" {
					k = "iface " + rest
				}
			}
			if _, dup := db.Funcs[k]; dup {
				return fmt.Errorf("%s: duplicate contract for %s", src, rest)
			}
			db.Funcs[k] = cur
			db.Order = append(db.Order, k)
		case "pred":
			// pred name(params) : body
			i := strings.Index(rest, "(")
			j := matchParen(rest, i)
			if i < 0 || j < 0 {
				return fmt.Errorf("%s: bad pred", src)
			}
			body := strings.TrimSpace(rest[j+1:])
			resT := ""
			if ci := strings.Index(body, ":"); ci > 0 {
				resT = strings.TrimSpace(body[:ci])
				body = body[ci:]
			}
			body = strings.TrimPrefix(body, ":")
			p := &Pred{Name: strings.TrimSpace(rest[:i]), Params: rest[i+1 : j], Result: resT, Body: strings.TrimSpace(body), PkgPath: pkgPath, Src: src}
			db.Preds[pkgPath+" "+p.Name] = p
			cur = nil
			curUF = nil
		case "uf":
			i := strings.Index(rest, "(")
			if i < 0 {
				return fmt.Errorf("%s: bad uf", src)
			}
			u := &UFDecl{Name: strings.TrimSpace(rest[:i]), Sig: rest[i:], PkgPath: pkgPath, Src: src}
			db.UFs[pkgPath+" "+u.Name] = u
			curUF = u
			cur = nil
		case "ghostfield", "view", "ghostscalar":
			cur = nil
			curUF = nil
		case "effects":
			// effects C15 : readonly <import path prefix>
			cur = nil
			curUF = nil
			parts := strings.SplitN(rest, ":", 2)
			if len(parts) != 2 || len(strings.Fields(parts[1])) != 2 {
				return fmt.Errorf("%s: effects <props> : <kind> <import path prefix>", src)
			}
			fs := strings.Fields(parts[1])
			ed := EffectDirective{PkgPath: pkgPath, Kind: fs[0], Prefix: fs[1], Src: src}
			for _, p := range splitTop(parts[0], ',') {
				ed.Props = append(ed.Props, strings.TrimSpace(p))
			}
			db.Effects = append(db.Effects, ed)
		case "sweep":
			// sweep C07, C08 : file.go file.go
			cur = nil
			curUF = nil
			parts := strings.SplitN(rest, ":", 2)
			if len(parts) != 2 {
				return fmt.Errorf("%s: sweep <props> : <files>", src)
			}
			sw := Sweep{PkgPath: pkgPath, Src: src}
			for _, f := range strings.Fields(parts[1]) {
				if f == "+unboxnonnil" {
					sw.UnboxNonNil = true
				} else {
					sw.Files = append(sw.Files, f)
				}
			}
			for _, p := range splitTop(parts[0], ',') {
				sw.Props = append(sw.Props, strings.TrimSpace(p))
			}
			db.Sweeps = append(db.Sweeps, sw)
		case "globalinv":
			cur = nil
			curUF = nil
			db.GlobalInvs = append(db.GlobalInvs, GlobalInv{PkgPath: pkgPath, Clause: Clause{Text: rest, Src: src}})
		case "define":
		case "axiom":
			if curUF == nil {
				return fmt.Errorf("%s: axiom outside uf", src)
			}
			curUF.Axioms = append(curUF.Axioms, Clause{Text: rest, Src: src})
		default:
			if cur == nil {
				return fmt.Errorf("%s: clause %q outside func block", src, kw)
			}
			switch kw {
			case "requires":
				cur.Requires = append(cur.Requires, Clause{rest, label, src})
			case "ensures":
				cur.Ensures = append(cur.Ensures, Clause{rest, label, src})
			case "modifies":
				cur.HasMod = true
				if rest == "*" {
					cur.ModAll = true
				} else if strings.HasPrefix(rest, "everything except ") {
					cur.ModAll = true
					cur.ModExcept = append(cur.ModExcept, splitTop(strings.TrimPrefix(rest, "everything except "), ',')...)
				} else if rest != "" && rest != "nothing" {
					cur.Modifies = append(cur.Modifies, splitTop(rest, ',')...)
				}
			case "havoc":
				cur.Havoc = append(cur.Havoc, splitTop(rest, ',')...)
			case "preserves":
				cur.Preserves = append(cur.Preserves, splitTop(rest, ',')...)
			case "unboxnonnil":
				cur.UnboxNonNil = true
			case "assumepre":
				if r := strings.TrimSpace(strings.SplitN(rest, "[A]", 2)[0]); r != "" {
					cur.AssumePreFor = append(cur.AssumePreFor, r)
				} else {
					cur.AssumePre = true
				}
			case "iterates":
				// iterates f count E
				fs := strings.SplitN(rest, " ", 3)
				if len(fs) != 3 || fs[1] != "count" {
					return fmt.Errorf("%s: iterates <param> count <expr>", src)
				}
				cur.IterFn, cur.IterCount = fs[0], strings.TrimSpace(fs[2])
				if strings.HasSuffix(cur.IterCount, " anyresult") {
					cur.IterAny = true
					cur.IterCount = strings.TrimSpace(strings.TrimSuffix(cur.IterCount, " anyresult"))
				}
				cur.HasMod = true
			case "yields":
				cur.Yields = append(cur.Yields, Clause{rest, label, src})
			case "nopanic":
				cur.NoPanic = true
			case "inline":
				cur.Inline = true
			case "pure":
				cur.Pure = true
				cur.HasMod = true
			case "assumed":
				cur.Assumed = true
			case "trusted":
				cur.Trusted = true
			case "math":
				cur.Math = true
			case "fresh":
				cur.Fresh = true
			case "deterministic":
				cur.Deterministic = true
				cur.Pure = true
				cur.HasMod = true
			case "alias":
				cur.Alias = rest
			case "expect":
				cur.Expect = rest
			case "panic":
				if !strings.HasPrefix(rest, "ensures ") {
					return fmt.Errorf("%s: expected `panic ensures <expr>`", src)
				}
				cur.PanicEns = append(cur.PanicEns, Clause{strings.TrimSpace(strings.TrimPrefix(rest, "ensures ")), label, src})
			case "panics":
				r := strings.TrimSpace(strings.TrimPrefix(rest, "when"))
				cur.Panics = &Clause{r, label, src}
			case "prop":
				for _, p := range splitTop(rest, ',') {
					cur.Props = append(cur.Props, strings.TrimSpace(p))
				}
			case "ghost":
				// ghost var name type = init
				r := strings.TrimSpace(strings.TrimPrefix(rest, "var"))
				parts := strings.SplitN(r, "=", 2)
				nt := strings.SplitN(strings.TrimSpace(parts[0]), " ", 2)
				if len(nt) != 2 {
					return fmt.Errorf("%s: bad ghost var", src)
				}
				g := GhostVar{Name: nt[0], Type: strings.TrimSpace(nt[1])}
				if len(parts) == 2 {
					g.Init = strings.TrimSpace(parts[1])
				}
				cur.Ghost = append(cur.Ghost, g)
			case "loop":
				// loop N invariant[label] expr | loop N use lemma(args)
				fs := strings.SplitN(rest, " ", 3)
				if len(fs) < 3 {
					return fmt.Errorf("%s: bad loop clause", src)
				}
				n, err := strconv.Atoi(fs[0])
				if err != nil {
					return fmt.Errorf("%s: bad loop ordinal", src)
				}
				ls := cur.Loops[n]
				if ls == nil {
					ls = &LoopSpec{}
					cur.Loops[n] = ls
				}
				k2 := fs[1]
				lab := ""
				if m := labelRe.FindStringSubmatch(k2); m != nil {
					k2 = m[1]
					lab = m[2]
				}
				switch k2 {
				case "invariant":
					ls.Invariants = append(ls.Invariants, Clause{strings.TrimSpace(fs[2]), lab, src})
				case "use":
					ls.Uses = append(ls.Uses, Clause{strings.TrimSpace(fs[2]), lab, src})
				case "decreases":
					ls.Decreases = &Clause{strings.TrimSpace(fs[2]), lab, src}
				default:
					return fmt.Errorf("%s: bad loop clause kind %q", src, k2)
				}
			case "at":
				// at <site> <kind> expr
				fs := strings.SplitN(rest, " ", 3)
				if len(fs) < 3 {
					return fmt.Errorf("%s: bad at clause", src)
				}
				cur.Ats = append(cur.Ats, AtSpec{Site: fs[0], Kind: fs[1], Clause: Clause{strings.TrimSpace(fs[2]), "", src}})
			case "end":
				cur = nil
			default:
				return fmt.Errorf("%s: unknown clause %q", src, kw)
			}
		}
	}
	return nil
}

func matchParen(s string, i int) int {
	if i < 0 {
		return -1
	}
	d := 0
	for j := i; j < len(s); j++ {
		switch s[j] {
		case '(':
			d++
		case ')':
			d--
			if d == 0 {
				return j
			}
		}
	}
	return -1
}

// split at top-level separators (not inside parens/brackets/braces)
func splitTop(s string, sep byte) []string {
	var out []string
	d := 0
	last := 0
	for i := 0; i < len(s); i++ {
		switch s[i] {
		case '(', '[', '{':
			d++
		case ')', ']', '}':
			d--
		default:
			if s[i] == sep && d == 0 {
				out = append(out, strings.TrimSpace(s[last:i]))
				last = i + 1
			}
		}
	}
	out = append(out, strings.TrimSpace(s[last:]))
	return out
}
