package main

import (
	"fmt"
	"go/token"
	"go/types"
	"os"
	"path/filepath"
	"sort"
	"strings"

	"golang.org/x/tools/go/packages"
	"golang.org/x/tools/go/ssa"
	"golang.org/x/tools/go/ssa/ssautil"
)

type GhostField struct {
	Name    string
	Sig     string
	PkgPath string
	Src     string
	Defs    []GhostDef
	sig     *types.Signature
}

type GhostDef struct {
	Params string
	Body   string
	Src    string
	sig    *types.Signature
}

type Engine struct {
	fset        *token.FileSet
	prog        *ssa.Program
	pkgs        []*packages.Package
	allPkgs     map[string]*packages.Package
	db          *ContractDB
	synths      map[string]*synthPkg
	checkCache  map[string]*checked
	ghostPkg    *types.Package
	dummyFile   *token.File
	dummyNext   token.Pos
	ghostSorts  map[string]string
	ghostFields map[string]string
	gfields     map[string]*GhostField // pkgPath + " " + name
	effectAssumptions map[string]bool
	srcLines    map[string][]string
	pkgDefaults []pkgDefault
	defaultCts  map[*ssa.Function]*FuncContract
	ghostViews  map[string]string
	presums     map[string]string
	predDepth   int
	funcIndex   map[string]*ssa.Function
	repoModule  string
	globals     map[*types.Var]*ssa.Global
	noAutoInline bool
}

type engineError struct{ msg string }

func (e *Engine) fatalf(format string, a ...any) {
	panic(engineError{fmt.Sprintf(format, a...)})
}

const repoModulePrefix = "github.com/open-telemetry/otel-arrow"

func loadEngine(dir string, patterns []string, assumedDir string) (*Engine, error) {
	e := &Engine{synths: map[string]*synthPkg{}, checkCache: map[string]*checked{}, ghostSorts: map[string]string{},
		ghostFields: map[string]string{}, gfields: map[string]*GhostField{}, effectAssumptions: map[string]bool{}, ghostViews: map[string]string{}, presums: map[string]string{},
		funcIndex: map[string]*ssa.Function{}, allPkgs: map[string]*packages.Package{}, globals: map[*types.Var]*ssa.Global{}}
	e.fset = token.NewFileSet()
	cfg := &packages.Config{Mode: packages.LoadAllSyntax, Dir: dir, BuildFlags: []string{"-tags=verif"}, Fset: e.fset,
		Env: append(os.Environ(), "GOFLAGS=-mod=mod", "GOPROXY=off", "GOSUMDB=off", "GOTOOLCHAIN=local")}
	pkgs, err := packages.Load(cfg, patterns...)
	if err != nil {
		return nil, err
	}
	var errs []string
	packages.Visit(pkgs, nil, func(p *packages.Package) {
		e.allPkgs[p.PkgPath] = p
		if strings.HasPrefix(p.PkgPath, repoModulePrefix) {
			for _, er := range p.Errors {
				errs = append(errs, er.Error())
			}
		}
	})
	if len(errs) > 0 {
		return nil, fmt.Errorf("package errors:\n%s", strings.Join(errs, "\n"))
	}
	e.pkgs = pkgs
	prog, _ := ssautil.AllPackages(pkgs, ssa.NaiveForm|ssa.GlobalDebug|ssa.InstantiateGenerics)
	// build only repo packages (dependencies are handled by assumed contracts)
	for _, sp := range prog.AllPackages() {
		if strings.HasPrefix(sp.Pkg.Path(), repoModulePrefix) {
			sp.Build()
		}
	}
	e.prog = prog
	e.db = &ContractDB{Funcs: map[string]*FuncContract{}, Preds: map[string]*Pred{}, UFs: map[string]*UFDecl{}}
	// contract files of repo packages
	var paths []string
	for path, p := range e.allPkgs {
		if strings.HasPrefix(path, repoModulePrefix) && len(p.GoFiles) > 0 {
			paths = append(paths, path)
		}
	}
	sort.Strings(paths)
	for _, path := range paths {
		p := e.allPkgs[path]
		for _, f := range p.GoFiles {
			if strings.HasPrefix(filepath.Base(f), "verif_contracts") {
				if err := e.db.parseContractFile(f, path, "//@", false); err != nil {
					return nil, err
				}
				if err := e.parseGhostDecls(f, path); err != nil {
					return nil, err
				}
			}
		}
	}
	if assumedDir != "" {
		files, _ := filepath.Glob(filepath.Join(assumedDir, "*.spec"))
		sort.Strings(files)
		for _, f := range files {
			// first line may carry "package <path>" to set the scope
			scope := ""
			data, _ := os.ReadFile(f)
			for _, ln := range strings.Split(string(data), "\n") {
				ln = strings.TrimSpace(ln)
				if strings.HasPrefix(ln, "# scope ") {
					scope = strings.TrimSpace(strings.TrimPrefix(ln, "# scope "))
				}
				if strings.HasPrefix(ln, "# default ") {
					// # default <import path prefix> modifies external
					fs := strings.Fields(strings.TrimPrefix(ln, "# default "))
					if len(fs) == 3 && fs[1] == "modifies" && fs[2] == "external" {
						e.pkgDefaults = append(e.pkgDefaults, pkgDefault{scope: scope, prefix: fs[0], src: filepath.Base(f)})
					}
				}
			}
			if scope != "" && e.allPkgs[scope] == nil {
				continue // not relevant to the loaded packages
			}
			if err := e.db.parseContractFile(f, scope, "", true); err != nil {
				return nil, err
			}
		}
	}
	// index functions
	for fn := range ssautil.AllFunctions(prog) {
		if fn.Pkg == nil && fn.Origin() == nil {
			continue
		}
		e.funcIndex[e.fullKey(fn)] = fn
	}
	for _, sp := range prog.AllPackages() {
		for _, m := range sp.Members {
			if g, ok := m.(*ssa.Global); ok {
				if v, ok := g.Object().(*types.Var); ok {
					e.globals[v] = g
				}
			}
		}
	}
	return e, nil
}

func (e *Engine) imports(pkg, dep string) bool {
	p := e.allPkgs[pkg]
	if p == nil {
		return false
	}
	_, ok := p.Imports[dep]
	return ok
}

func (e *Engine) typesPkg(path string) *types.Package {
	if p, ok := e.allPkgs[path]; ok {
		return p.Types
	}
	return nil
}

func (e *Engine) loadedPkg(path string) *packages.Package { return e.allPkgs[path] }

func (e *Engine) globalFor(v *types.Var) *ssa.Global { return e.globals[v] }

func fnPkgPath(fn *ssa.Function) string {
	if fn.Pkg != nil {
		return fn.Pkg.Pkg.Path()
	}
	if o := fn.Origin(); o != nil && o.Pkg != nil {
		return o.Pkg.Pkg.Path()
	}
	if fn.Parent() != nil {
		return fnPkgPath(fn.Parent())
	}
	if fn.Object() != nil && fn.Object().Pkg() != nil {
		return fn.Object().Pkg().Path()
	}
	return ""
}

// funcKey: the function's name with its own package qualifier removed,
// e.g. "(*shard).sendItems$1", "allSameContext", "(*AttrsParentIDDecoder[uint16]).Decode".
func (e *Engine) funcKey(fn *ssa.Function) string {
	s := fn.String()
	pp := fnPkgPath(fn)
	if pp != "" {
		s = strings.ReplaceAll(s, pp+".", "")
	}
	return s
}

func (e *Engine) fullKey(fn *ssa.Function) string {
	return fnPkgPath(fn) + " " + e.funcKey(fn)
}

func (e *Engine) funcByKey(pkgPath, key string) *ssa.Function {
	return e.funcIndex[pkgPath+" "+key]
}

func (e *Engine) unitName(fn *ssa.Function) string {
	pp := fnPkgPath(fn)
	short := pp
	if i := strings.LastIndex(pp, "/"); i >= 0 {
		short = pp[i+1:]
	}
	if p := e.allPkgs[pp]; p != nil {
		short = p.Name
	}
	return short + "." + e.funcKey(fn)
}

func (e *Engine) isRepoFunc(fn *ssa.Function) bool {
	return strings.HasPrefix(fnPkgPath(fn), repoModulePrefix)
}

// pkgDefault: "every function declared under <prefix> that takes no function
// value modifies dependency memory only" (an assumed contract for a whole
// dependency, used where no specific contract is given).
type pkgDefault struct{ scope, prefix, src string }

func (e *Engine) defaultContract(fn *ssa.Function) *FuncContract {
	if len(e.pkgDefaults) == 0 || fn == nil {
		return nil
	}
	if ct, ok := e.defaultCts[fn]; ok {
		return ct
	}
	if e.defaultCts == nil {
		e.defaultCts = map[*ssa.Function]*FuncContract{}
	}
	var ct *FuncContract
	pp := fnPkgPath(fn)
	for _, d := range e.pkgDefaults {
		if d.scope != "" && e.allPkgs[d.scope] == nil {
			continue
		}
		if !strings.HasPrefix(pp, d.prefix) {
			continue
		}
		takesFunc := false
		for i := 0; i < fn.Signature.Params().Len(); i++ {
			if _, ok := fn.Signature.Params().At(i).Type().Underlying().(*types.Signature); ok {
				takesFunc = true
			}
		}
		if takesFunc {
			continue
		}
		ct = &FuncContract{Key: fn.String(), PkgPath: d.scope, Kind: "func", HasMod: true, Modifies: []string{"external"}, Assumed: true,
			Loops: map[int]*LoopSpec{}, Src: d.src + ": default for " + d.prefix}
		break
	}
	e.defaultCts[fn] = ct
	return ct
}

func (e *Engine) contractFor(fn *ssa.Function) *FuncContract {
	if ct := e.contractFor0(fn); ct != nil {
		return ct
	}
	return e.defaultContract(fn)
}

func (e *Engine) contractFor0(fn *ssa.Function) *FuncContract {
	if ct, ok := e.db.Funcs[e.fullKey(fn)]; ok {
		return ct
	}
	// assumed contracts are keyed by the fully qualified name
	if ct, ok := e.db.Funcs[fn.String()]; ok {
		return ct
	}
	if o := fn.Origin(); o != nil {
		if ct, ok := e.db.Funcs[o.String()]; ok {
			return ct
		}
	}
	return nil
}

func (e *Engine) contractForCall(caller *ssa.Function, c *ssa.CallCommon) (*FuncContract, *ssa.Function) {
	if c.IsInvoke() {
		t := c.Value.Type()
		if n, ok := types.Unalias(t).(*types.Named); ok && n.Obj().Pkg() != nil {
			k := n.Obj().Pkg().Path() + " iface " + n.Obj().Name() + "." + c.Method.Name()
			if ct, ok := e.db.Funcs[k]; ok {
				return ct, nil
			}
			k2 := "iface " + n.Obj().Pkg().Path() + "." + n.Obj().Name() + "." + c.Method.Name()
			if ct, ok := e.db.Funcs[k2]; ok {
				return ct, nil
			}
		}
		if n, ok := types.Unalias(t).(*types.Named); ok && n.Obj().Pkg() == nil {
			// error
			k2 := "iface " + n.Obj().Name() + "." + c.Method.Name()
			if ct, ok := e.db.Funcs[k2]; ok {
				return ct, nil
			}
		}
		return nil, nil
	}
	fn := c.StaticCallee()
	if fn == nil {
		return nil, nil
	}
	return e.contractFor(fn), fn
}

func (e *Engine) isInlineCandidate(fn *ssa.Function) bool {
	if e.noAutoInline || !e.isRepoFunc(fn) || len(fn.Blocks) == 0 {
		return false
	}
	if fn.TypeParams().Len() > 0 && len(fn.TypeArgs()) == 0 {
		return false
	}
	n := 0
	for _, b := range fn.Blocks {
		for _, s := range b.Succs {
			if isBackEdge(b, s) {
				return false
			}
		}
		for _, in := range b.Instrs {
			if _, dbg := in.(*ssa.DebugRef); dbg {
				continue
			}
			n++
			switch i := in.(type) {
			case *ssa.Go, *ssa.Select:
				return false
			case ssa.CallInstruction:
				if i.Common().StaticCallee() == fn {
					return false
				}
			}
		}
	}
	return n <= 80
}

func (e *Engine) ghostViewFor(t types.Type, method string) string {
	if n, ok := types.Unalias(t).(*types.Named); ok {
		return e.ghostViews[n.Obj().Pkg().Path()+" "+n.Obj().Name()+"."+method]
	}
	return ""
}

// gfieldLookup resolves a ghost field name as written in package pkgPath:
// either a field of that package or `<pkgname>_<field>` of an imported one.
func (e *Engine) gfieldLookup(pkgPath, name string) (*GhostField, string, bool) {
	if g, ok := e.gfields[pkgPath+" "+name]; ok {
		e.synth(pkgPath)
		return g, e.ghostFields[g.Name], true
	}
	if i := strings.Index(name, "_"); i > 0 {
		for _, g := range e.gfields {
			if g.Name == name[i+1:] && g.PkgPath != pkgPath && e.imports(pkgPath, g.PkgPath) && e.typesPkg(g.PkgPath).Name() == name[:i] {
				e.synth(g.PkgPath)
				return g, e.ghostFields[g.Name], true
			}
		}
	}
	return nil, "", false
}

// ghostArrSort: sort of the ghost heap of field `name`: an array from the sort
// of its parameter (Int for pointers and interfaces, a datatype for struct
// values such as pdata wrappers) to its result sort.
func (e *Engine) ghostArrSort(vc *VC, name string) string {
	idx := "Int"
	for _, g := range e.gfields {
		if g.Name == name && g.sig != nil {
			idx = vc.sortOf(g.sig.Params().At(0).Type())
		}
	}
	return fmt.Sprintf("(Array %s %s)", idx, e.ghostFieldSort(name))
}

func (e *Engine) ghostFieldSort(name string) string {
	if s, ok := e.ghostFields[name]; ok {
		return s
	}
	return "Int"
}

func (e *Engine) methodFor(recv types.Type, fo *types.Func) *ssa.Function {
	ms := e.prog.MethodSets.MethodSet(recv)
	for i := 0; i < ms.Len(); i++ {
		if ms.At(i).Obj().Name() == fo.Name() {
			return e.prog.MethodValue(ms.At(i))
		}
	}
	if pt := pointee(recv); pt == nil {
		ms = e.prog.MethodSets.MethodSet(types.NewPointer(recv))
		for i := 0; i < ms.Len(); i++ {
			if ms.At(i).Obj().Name() == fo.Name() {
				return e.prog.MethodValue(ms.At(i))
			}
		}
	}
	return nil
}

// parseGhostDecls reads ghost-level declarations that are not attached to
// a function: `ghost scalar name sort`, `ghostfield name(params) type`,
// `define (params) : body`, `view Iface.method = field`.
func (e *Engine) parseGhostDecls(path, pkgPath string) error {
	data, err := os.ReadFile(path)
	if err != nil {
		return err
	}
	var cur *GhostField
	for ln, line := range strings.Split(string(data), "\n") {
		t := strings.TrimSpace(line)
		if !strings.HasPrefix(t, "//@") {
			continue
		}
		t = strings.TrimSpace(strings.TrimPrefix(t, "//@"))
		src := fmt.Sprintf("%s:%d", filepath.Base(path), ln+1)
		switch {
		case strings.HasPrefix(t, "ghostfield "):
			rest := strings.TrimSpace(strings.TrimPrefix(t, "ghostfield "))
			i := strings.Index(rest, "(")
			if i < 0 {
				return fmt.Errorf("%s: bad ghostfield", src)
			}
			cur = &GhostField{Name: strings.TrimSpace(rest[:i]), Sig: rest[i:], PkgPath: pkgPath, Src: src}
			e.gfields[pkgPath+" "+cur.Name] = cur
		case strings.HasPrefix(t, "define ") && cur != nil:
			rest := strings.TrimSpace(strings.TrimPrefix(t, "define "))
			j := matchParen(rest, 0)
			if j < 0 {
				return fmt.Errorf("%s: bad define", src)
			}
			body := strings.TrimSpace(strings.TrimPrefix(strings.TrimSpace(rest[j+1:]), ":"))
			cur.Defs = append(cur.Defs, GhostDef{Params: rest[1:j], Body: body, Src: src})
		case strings.HasPrefix(t, "view "):
			rest := strings.TrimSpace(strings.TrimPrefix(t, "view "))
			parts := strings.SplitN(rest, "=", 2)
			if len(parts) != 2 {
				return fmt.Errorf("%s: bad view", src)
			}
			e.ghostViews[pkgPath+" "+strings.TrimSpace(parts[0])] = strings.TrimSpace(parts[1])
		case strings.HasPrefix(t, "ghostscalar "):
			fs := strings.Fields(strings.TrimPrefix(t, "ghostscalar "))
			if len(fs) == 2 {
				e.ghostSorts[fs[0]] = fs[1]
			}
		default:
			first := t
			if i := strings.IndexAny(t, " \t"); i >= 0 {
				first = t[:i]
			}
			if first == "func" || first == "iface" || first == "pred" || first == "uf" {
				cur = nil
			}
		}
	}
	return nil
}
