package main

import (
	"os"
	"sort"
	"strconv"
	"fmt"
	"go/ast"
	"go/token"
	"go/types"
	"strings"

	"golang.org/x/tools/go/ssa"
)

func typeShortName(t types.Type) string {
	if p := pointee(t); p != nil {
		t = p
	}
	if n, ok := types.Unalias(t).(*types.Named); ok {
		return n.Obj().Name()
	}
	return ""
}

func shortCallee(c *ssa.CallCommon) string {
	if c.IsInvoke() {
		if tn := typeShortName(c.Value.Type()); tn != "" {
			return tn + "." + c.Method.Name()
		}
		return c.Method.Name()
	}
	if f := c.StaticCallee(); f != nil {
		n := f.Name()
		if f.Signature.Recv() != nil {
			if tn := typeShortName(f.Signature.Recv().Type()); tn != "" {
				return tn + "." + n
			}
		}
		return n
	}
	if b, ok := c.Value.(*ssa.Builtin); ok {
		return b.Name()
	}
	return "dyn"
}

// call executes a call instruction.  preArgs/preFn carry values evaluated
// earlier (deferred calls).
func (x *Exec) call(fr *Frame, st *State, c *ssa.CallCommon, instr ssa.Instruction, pos token.Pos, preArgs []Val, preFn *Val) Val {
	var args []Val
	if preArgs != nil {
		args = preArgs
	} else {
		for _, a := range c.Args {
			v := x.value(fr, st, a)
			if v.Tup != nil {
				args = append(args, v)
				continue
			}
			args = append(args, Val{T: x.term(fr, st, v), Clo: v.Clo, CloFr: v.CloFr, ArrBlock: v.ArrBlock})
		}
	}
	var resT types.Type
	if v, ok := instr.(ssa.Value); ok {
		resT = v.Type()
	} else {
		resT = c.Signature().Results()
		if c.Signature().Results().Len() == 1 {
			resT = c.Signature().Results().At(0).Type()
		}
	}
	if b, ok := c.Value.(*ssa.Builtin); ok {
		return x.builtin(fr, st, b, c, args, pos, resT)
	}
	name := shortCallee(c)
	ord := fr.siteOrd("call:"+name, instr)
	site := fmt.Sprintf("call:%s#%d", name, ord)
	alt := ""
	if d := strings.Index(name, "."); d > 0 {
		if k, ok := fr.recvOrds[instr]; ok {
			alt = fmt.Sprintf("call:%s.*#%d", name[:d], k)
		}
	}

	var recv *Val
	var callee *ssa.Function
	var clo *ssa.MakeClosure
	var cloFr *Frame
	if c.IsInvoke() {
		if preFn != nil && preFn.T != "" {
			recv = preFn
		} else {
			v := x.value(fr, st, c.Value)
			recv = &Val{T: x.term(fr, st, v)}
		}
		x.nilCheck(fr, st, recv.T, pos, "method call on nil interface "+name)
	} else {
		callee = c.StaticCallee()
		switch fv := c.Value.(type) {
		case *ssa.MakeClosure:
			clo = fv
			cloFr = fr
		case *ssa.Function:
		default:
			var v Val
			if preFn != nil && (preFn.T != "" || preFn.Clo != nil) {
				v = *preFn
			} else {
				v = x.value(fr, st, c.Value)
			}
			if v.Clo != nil {
				clo = v.Clo
				cloFr = v.CloFr
				if cloFr == nil {
					cloFr = fr
				}
				callee = clo.Fn.(*ssa.Function)
			}
		}
	}
	ct, _ := x.eng.contractForCall(fr.fn, c)
	if ct == nil && callee != nil {
		ct = x.eng.contractFor(callee)
	}
	av := map[string]Val{}
	at := map[string]types.Type{}
	for k, a := range args {
		if a.Tup == nil && k < len(c.Args) {
			av[fmt.Sprintf("arg%d", k)] = a
			at[fmt.Sprintf("arg%d", k)] = c.Args[k].Type()
		}
	}
	if recv != nil {
		av["recv"] = *recv
		at["recv"] = c.Value.Type()
	}
	if alt != "" {
		fr.altSite = "before:" + alt
	}
	x.atSite(fr, st, "before:"+site, -1, av, at)
	fr.altSite = ""
	var res Val
	pureHere := false
	if fr.ct != nil && fr.inlineTag == "" {
		for k, a := range fr.ct.Ats {
			if a.Site == site && a.Kind == "pure" {
				pureHere = true
				fr.atUsed()[k] = true
				x.vc.usedAssumed[fmt.Sprintf("call %s in %s assumed to have no visible side effects: %s", site, fr.unit, a.Clause.Text)] = true
			}
		}
	}
	switch {
	case pureHere:
		x.bumpAlloc(st)
		if resT != nil {
			if tup, ok := resT.(*types.Tuple); !ok || tup.Len() > 0 {
				res = x.freshTyped(st, "ret_"+name, resT)
			}
		}
	case callee != nil && ((ct != nil && ct.Inline) || (ct == nil && x.eng.isInlineCandidate(callee) && fr.depth < 3)):
		var bind []Val
		if clo != nil {
			for _, b := range clo.Bindings {
				bv := x.value(cloFr, st, b)
				bind = append(bind, bv)
			}
		}
		res = x.inline(fr, st, callee, args, bind, ct, false)
	case ct != nil && ct.IterFn != "":
		res = x.iterateCall(fr, st, ct, callee, c, recv, args, site, alt, pos)
	case ct != nil:
		res = x.applyContract(fr, st, ct, callee, c, recv, args, site, pos, resT, clo, cloFr)
	default:
		res = x.havocCall(fr, st, c, callee, resT, pos)
	}
	ev := map[string]Val{}
	et := map[string]types.Type{}
	for k, v := range av {
		ev[k] = v
		et[k] = at[k]
	}
	if res.Tup == nil && resT != nil {
		if tup, isTup := resT.(*types.Tuple); !isTup || tup.Len() > 0 {
			if !isTup {
				ev["ret"] = res
				et["ret"] = resT
			}
		}
	}
	if res.Tup != nil {
		tup := resT.(*types.Tuple)
		for k := range res.Tup {
			ev[fmt.Sprintf("ret%d", k)] = res.Tup[k]
			et[fmt.Sprintf("ret%d", k)] = tup.At(k).Type()
		}
	}
	if !pureHere {
		x.assumeGlobalInvs(fr, st)
	}
	fr.altSite = alt
	x.atSite(fr, st, site, -1, ev, et)
	fr.altSite = ""
	return res
}

func (x *Exec) havocCall(fr *Frame, st *State, c *ssa.CallCommon, callee *ssa.Function, resT types.Type, pos token.Pos) Val {
	desc := describeCall(c)
	if callee != nil && !x.eng.isRepoFunc(callee) {
		keys := x.typeReachKeys(c)
		all := false
		for _, k := range keys {
			if k == "*" {
				all = true
			}
		}
		if all {
			// a dependency function can run a closure of this function only through a
			// function or interface value it is handed; with plain arguments (pdata
			// wrappers, numbers, strings) the closure-written locals keep their value
			skip := x.closureWritten()
			if !mayReceiveCallback(c) {
				skip = map[*ssa.Alloc]bool{}
				x.vc.usedAssumed["dependency functions that receive no function or interface value do not run closures of the calling function"] = true
			}
			// the captured variables of a closure under verification live in cells of the
			// enclosing function: the same argument keeps them
			type savedFV struct{ key, ptr, val string }
			var fvs []savedFV
			if !mayReceiveCallback(c) && x.top != nil {
				for _, fv := range x.top.fn.FreeVars {
					et := pointee(fv.Type())
					if et == nil {
						continue
					}
					pv, ok := x.top.regs[fv]
					if !ok || pv.T == "" {
						continue
					}
					k := x.vc.heapKey("H", et)
					fvs = append(fvs, savedFV{k, pv.T, x.vc.freshDef("keep_"+fv.Name(), x.vc.sortOf(et), fmt.Sprintf("(select %s %s)", x.vc.heapGet(st, k), pv.T))})
				}
			}
			restore := x.keepCapturedAcross(st, c, callee)
			x.havocAllKeep(st, skip)
			restore()
			for _, f := range fvs {
				st.heap[f.key] = fmt.Sprintf("(store %s %s %s)", x.vc.heapGet(st, f.key), f.ptr, f.val)
			}
			x.vc.noteOnce("havoc-all at uncontracted call " + desc)
		} else {
			for _, k := range keys {
				st.heap[k] = x.vc.freshConst("hv_"+x.vc.heapNames[k], x.vc.heapSorts[k])
			}
			old := st.alloc
			st.alloc = x.vc.freshConst("alloc", "Int")
			x.vc.assume(st.pc, fmt.Sprintf("(>= %s %s)", st.alloc, old))
			x.vc.noteOnce("type-based frame at uncontracted external call " + desc)
		}
	} else {
		// a repository function can run a closure of the function under verification only if
		// such a closure is reachable for it: when every closure of the enclosing function is
		// only ever called or handed to a callee that calls it and does not keep it (checked on
		// the SSA), a callee that is handed no function value cannot run one, so the captured
		// variables of the closure under verification keep their value
		restore := x.keepCapturedAcross(st, c, callee)
		x.havocAllKeep(st, x.closureWritten())
		restore()
		x.vc.noteOnce("havoc-all at uncontracted call " + desc)
	}
	if resT == nil {
		return Val{}
	}
	if tup, ok := resT.(*types.Tuple); ok && tup.Len() == 0 {
		return Val{}
	}
	return x.freshTyped(st, "ret_"+shortCallee(c), resT)
}

// closureWritten: private cells that some closure of their function writes
// (an unknown callee might run that closure).
func (x *Exec) closureWritten() map[*ssa.Alloc]bool {
	skip := map[*ssa.Alloc]bool{}
	for _, c := range x.priv {
		if closureWrites(c.fr.fn, c.alloc) {
			skip[c.alloc] = true
		}
	}
	return skip
}

func (vc *VC) noteOnce(s string) {
	for _, n := range vc.notes {
		if n == s {
			return
		}
	}
	vc.notes = append(vc.notes, s)
}

// inline executes callee's body in place.
func (x *Exec) inline(fr *Frame, st *State, callee *ssa.Function, args []Val, bind []Val, ct *FuncContract, spec bool) Val {
	if fr.depth > 6 {
		x.eng.fatalf("inline depth exceeded at %s", callee)
	}
	sub := x.newFrame(callee, ct, false, fr.depth+1)
	sub.nopanic = fr.nopanic && !spec
	sub.math = fr.math
	sub.unit = fr.unit + ">" + x.eng.unitName(callee)
	sub.ord = fr.ord // share ordinal space so names stay unique
	sub.inlineTag = fmt.Sprintf("%s@%d", callee.Name(), fr.nextOrd("inline:"+callee.Name()))
	nPriv := len(x.priv)
	x.run(sub, st, args, bind)
	x.priv = x.priv[:nPriv]
	if len(sub.rets) == 0 {
		// never returns
		st.pc = "false"
		return x.freshTyped(st, "noret", callee.Signature.Results())
	}
	var ins []edgeState
	for _, r := range sub.rets {
		ins = append(ins, edgeState{st: r.st})
	}
	m := x.vc.merge(ins, "ret_"+callee.Name(), x.cellType)
	nres := callee.Signature.Results().Len()
	var outs []Val
	for k := 0; k < nres; k++ {
		t := sub.rets[len(sub.rets)-1].results[k].T
		for i := len(sub.rets) - 2; i >= 0; i-- {
			if sub.rets[i].results[k].T != t {
				t = fmt.Sprintf("(ite %s %s %s)", sub.rets[i].st.pc, sub.rets[i].results[k].T, t)
			}
		}
		v := Val{T: x.vc.define("r_"+callee.Name(), x.vc.sortOf(callee.Signature.Results().At(k).Type()), t)}
		if len(sub.rets) == 1 {
			v.Clo = sub.rets[0].results[k].Clo
		}
		outs = append(outs, v)
	}
	*st = *m
	switch nres {
	case 0:
		return Val{}
	case 1:
		return outs[0]
	}
	return Val{Tup: outs}
}

// calleeNames gives the parameter names a contract may use.
func calleeNames(ct *FuncContract, callee *ssa.Function, c *ssa.CallCommon) (names []string, typs []types.Type) {
	if callee != nil && !c.IsInvoke() && len(callee.Params) > 0 {
		for i, p := range callee.Params {
			n := p.Name()
			if n == "" || n == "_" {
				n = fmt.Sprintf("p%d", i)
			}
			names = append(names, n)
			typs = append(typs, p.Type())
		}
		return
	}
	sig := c.Signature()
	if c.IsInvoke() {
		names = append(names, "self")
		typs = append(typs, c.Value.Type())
	} else if sig.Recv() != nil {
		// external (unbuilt) method: the receiver is the first argument
		names = append(names, "self")
		typs = append(typs, sig.Recv().Type())
	}
	for i := 0; i < sig.Params().Len(); i++ {
		n := sig.Params().At(i).Name()
		if n == "" || n == "_" {
			n = fmt.Sprintf("p%d", i)
		}
		names = append(names, n)
		typs = append(typs, sig.Params().At(i).Type())
	}
	return
}

func resultNames(sig *types.Signature) (names []string, typs []types.Type) {
	r := sig.Results()
	for i := 0; i < r.Len(); i++ {
		if r.Len() == 1 {
			names = append(names, "result")
		} else {
			names = append(names, fmt.Sprintf("result%d", i))
		}
		typs = append(typs, r.At(i).Type())
	}
	return
}

func (x *Exec) applyContract(fr *Frame, st *State, ct *FuncContract, callee *ssa.Function, c *ssa.CallCommon, recv *Val, args []Val, site string, pos token.Pos, resT types.Type, clo *ssa.MakeClosure, cloFr *Frame) Val {
	vc := x.vc
	ct.used = true
	if ct.Assumed {
		vc.usedAssumed[ct.Kind+" "+ct.Key] = true
	}
	names, typs := calleeNames(ct, callee, c)
	vals := args
	if c.IsInvoke() {
		vals = append([]Val{*recv}, args...)
	}
	scopePkg := ct.PkgPath
	if scopePkg == "" {
		scopePkg = fnPkgPath(fr.fn)
	}
	mk := func(cur, old *State) *EvalCtx {
		ctx := &EvalCtx{x: x, fr: fr, st: cur, old: old, pkgPath: scopePkg, vars: map[string]*binding{}, math: ct.Math}
		for i, n := range names {
			if i < len(vals) {
				ctx.vars[n] = &binding{val: vals[i], typ: typs[i]}
				ctx.order = append(ctx.order, scopeVar{n, typs[i]})
			}
		}
		if clo != nil {
			for i, fv := range callee.FreeVars {
				bv := x.value(cloFr, cur, clo.Bindings[i])
				b := &binding{typ: pointee(fv.Type())}
				if bv.Loc != nil {
					b.loc = bv.Loc
				} else {
					b.loc = &Loc{kind: lHeap, key: vc.heapKey("H", pointee(fv.Type())), ptr: bv.T, rootT: pointee(fv.Type()), typ: pointee(fv.Type())}
				}
				ctx.vars[fv.Name()] = b
				ctx.order = append(ctx.order, scopeVar{fv.Name(), b.typ})
			}
		}
		return ctx
	}
	// ghost arguments: values the caller passes for the callee's ghost variables
	ghostArgs := map[string]*binding{}
	var ghostOrder []scopeVar
	if fr.ct != nil && fr.inlineTag == "" {
		for k, a := range fr.ct.Ats {
			if a.Site != "before:"+site || a.Kind != "pass" {
				continue
			}
			fr.atUsed()[k] = true
			parts := strings.SplitN(a.Clause.Text, "=", 2)
			if len(parts) != 2 {
				x.eng.fatalf("%s: pass name = expr", a.Clause.Src)
			}
			gname := strings.TrimSpace(parts[0])
			cctx := x.ownCtx(fr, st, true)
			cctx.src = a.Clause.Src
			t, ty := cctx.evalText(strings.TrimSpace(parts[1]))
			ghostArgs[gname] = &binding{val: Val{T: t}, typ: ty}
			ghostOrder = append(ghostOrder, scopeVar{gname, ty})
		}
	}
	mk0 := mk
	mk = func(cur, old *State) *EvalCtx {
		c := mk0(cur, old)
		for _, sv := range ghostOrder {
			c.vars[sv.name] = ghostArgs[sv.name]
			c.order = append(c.order, sv)
		}
		return c
	}
	// preconditions
	pre := st.clone()
	ctx := mk(st, pre)
	for k, r := range ct.Requires {
		ctx.src = r.Src
		g, _ := ctx.evalText(r.Text)
		assumeIt := x.top != nil && x.top.ct != nil && x.top.ct.AssumePre
		if !assumeIt && x.top != nil && x.top.ct != nil {
			for _, n := range x.top.ct.AssumePreFor {
				if n == shortCallee(c) {
					assumeIt = true
				}
			}
		}
		if assumeIt && os.Getenv("GOVC_AUDIT_ASSUMEPRE") != "" {
			assumeIt = false
		}
		if assumeIt {
			// this unit only carries at-site obligations: the callee's precondition
			// (a representation invariant of the wrappers) is assumed here
			vc.assume(st.pc, g)
			if x.top.ct.AssumePre {
				vc.usedAssumed["preconditions of callees are assumed (not checked) inside "+x.top.unit] = true
			} else {
				vc.usedAssumed["precondition of "+shortCallee(c)+" is assumed (not checked) inside "+x.top.unit+": "+r.Text] = true
			}
			continue
		}
		vc.oblige(fmt.Sprintf("%s/pre@%s:%s", fr.unit, strings.TrimPrefix(site, "call:"), clauseID(r, k)), "pre", fr.unit, x.pos(pos), "precondition of "+ct.Key+": "+r.Text, st.pc, g)
	}
	// frame
	allocBefore := st.alloc
	if !ct.HasMod || ct.ModAll {
		// "everything except T...": heaps of the listed types keep their content
		savedKeys := map[string]string{}
		for _, tt := range ct.ModExcept {
			t := x.eng.typeFromText(scopePkg, strings.TrimSpace(tt), ct.Src)
			for _, kind := range []string{"H", "E"} {
				k := vc.heapKey(kind, t)
				savedKeys[k] = vc.heapGet(st, k)
			}
			k := vc.heapKey("E", types.NewPointer(t))
			savedKeys[k] = vc.heapGet(st, k)
			k = vc.heapKey("H", types.NewSlice(types.NewPointer(t)))
			savedKeys[k] = vc.heapGet(st, k)
		}
		restore := x.keepCapturedAcross(st, c, callee)
		x.havocAllKeep(st, x.closureWritten())
		restore()
		for k, v := range savedKeys {
			st.heap[k] = v
		}
	} else {
		for _, m := range ct.Modifies {
			x.havocLvalue(fr, st, pre, ct, mk, m)
		}
		for _, g := range ct.Havoc {
			g = strings.TrimSpace(g)
			srt := "Int"
			if s, ok := x.eng.ghostSorts[g]; ok {
				srt = s
			}
			st.ghost[g] = vc.freshConst("hv_ghost_"+g, srt)
		}
		old := st.alloc
		st.alloc = vc.freshConst("alloc", "Int")
		vc.assume(st.pc, fmt.Sprintf("(>= %s %s)", st.alloc, old))
	}
	// results
	var res Val
	var sig *types.Signature
	if callee != nil {
		sig = callee.Signature
	} else {
		sig = c.Signature()
	}
	rn, rtys := resultNames(sig)
	var rvals []Val
	for i := range rn {
		if ct.Deterministic {
			// a function of its arguments only: repeated calls agree
			name := fmt.Sprintf("det_%s_%d", sanitize(ct.Key), i)
			var sorts, ats []string
			for k, v := range vals {
				if k < len(typs) {
					sorts = append(sorts, vc.sortOf(typs[k]))
					ats = append(ats, v.T)
				}
			}
			vc.uf(name, sorts, vc.sortOf(rtys[i]))
			t := name
			if len(ats) > 0 {
				t = fmt.Sprintf("(%s %s)", name, strings.Join(ats, " "))
			}
			vc.assumeTyped(st, t, rtys[i])
			rvals = append(rvals, Val{T: t})
			continue
		}
		rvals = append(rvals, x.freshTyped(st, "ret_"+shortCallee(c), rtys[i]))
	}
	post := mk(st, pre)
	post.resultAlloc = allocBefore
	for i, n := range rn {
		post.vars[n] = &binding{val: rvals[i], typ: rtys[i]}
		post.order = append(post.order, scopeVar{n, rtys[i]})
		if nr := sig.Results().At(i).Name(); nr != "" && nr != "_" {
			post.vars[nr] = &binding{val: rvals[i], typ: rtys[i]}
			post.order = append(post.order, scopeVar{nr, rtys[i]})
		}
	}
	if ct.Fresh && len(rvals) > 0 {
		for _, a := range x.ptrParts(rvals[0].T, rtys[0], 0) {
			vc.assume(st.pc, fmt.Sprintf("(and (>= %s %s) (< %s %s))", a, allocBefore, a, st.alloc))
		}
	}
	for _, e := range ct.Ensures {
		post.src = e.Src
		g, _ := post.evalText(e.Text)
		vc.assume(st.pc, g)
	}
	switch len(rvals) {
	case 0:
		res = Val{}
	case 1:
		res = rvals[0]
	default:
		res = Val{Tup: rvals}
	}
	return res
}

// havocLvalue forgets the content of one location named in a modifies clause.
func (x *Exec) havocLvalue(fr *Frame, st, pre *State, ct *FuncContract, mk func(cur, old *State) *EvalCtx, m string) {
	vc := x.vc
	m = strings.TrimSpace(m)
	if m == "external" {
		vc.havocExternal(st)
		return
	}
	// ghost field: name(expr)
	if i := strings.Index(m, "("); i > 0 && strings.HasSuffix(m, ")") {
		name := strings.TrimSpace(m[:i])
		if g, srt, ok := x.eng.gfieldLookup(ct.PkgPath, name); ok {
			name = g.Name
			k := vc.ghostHeapKey(name, x.eng.ghostArrSort(vc, name))
			if strings.TrimSpace(m[i+1:len(m)-1]) == "*" {
				// the whole ghost field (of every object)
				st.heap[k] = vc.freshConst("hv_"+vc.heapNames[k], vc.heapSorts[k])
				return
			}
			ctx := mk(pre, pre)
			ctx.src = ct.Src
			obj, _ := ctx.evalText(m[i+1 : len(m)-1])
			_ = srt
			st.heap[k] = fmt.Sprintf("(store %s %s %s)", vc.heapGet(st, k), obj, vc.freshConst("hv_"+name, srt))
			return
		}
	}
	if strings.HasPrefix(m, "ghost ") {
		g := strings.TrimSpace(strings.TrimPrefix(m, "ghost "))
		srt := "Int"
		if s, ok := x.eng.ghostSorts[g]; ok {
			srt = s
		}
		st.ghost[g] = vc.freshConst("hv_ghost_"+g, srt)
		return
	}
	ctx := mk(pre, pre)
	ctx.src = ct.Src
	lv := ctx.lvalue(m)
	switch lv.kind {
	case "field":
		// H[T][p].f := fresh
		f := vc.freshConst("hv_f", vc.sortOf(lv.typ))
		vc.assumeTyped(st, f, lv.typ)
		l := &Loc{kind: lHeap, key: lv.key, ptr: lv.ptr, rootT: lv.rootT, typ: lv.typ, path: lv.path}
		x.store(fr, st, l, f)
	case "object":
		f := vc.freshConst("hv_obj", vc.sortOf(lv.typ))
		st.heap[lv.key] = fmt.Sprintf("(store %s %s %s)", vc.heapGet(st, lv.key), lv.ptr, f)
	case "elems":
		f := vc.freshConst("hv_elems", fmt.Sprintf("(Array Int %s)", vc.sortOf(lv.typ)))
		st.heap[lv.key] = fmt.Sprintf("(store %s %s %s)", vc.heapGet(st, lv.key), lv.ptr, f)
	case "map":
		for _, kind := range []string{"MH", "MV", "MC"} {
			k := vc.heapKey(kind, lv.typ)
			st.heap[k] = vc.freshConst("hv_"+vc.heapNames[k], vc.heapSorts[k])
		}
	case "heapkey":
		st.heap[lv.key] = vc.freshConst("hv_"+vc.heapNames[lv.key], vc.heapSorts[lv.key])
	}
}

type lval struct {
	kind  string // field | object | elems | map | heapkey
	key   string
	ptr   string
	rootT types.Type
	typ   types.Type
	path  []sel
}

// lvalue resolves a modifies item: p.f | *p | s[*] | m (map) | all(T)
func (c *EvalCtx) lvalue(m string) lval {
	vc := c.x.vc
	if strings.HasPrefix(m, "all ") {
		t := c.x.eng.typeFromText(c.pkgPath, strings.TrimSpace(strings.TrimPrefix(m, "all ")), c.src)
		switch u := t.Underlying().(type) {
		case *types.Slice:
			return lval{kind: "heapkey", key: vc.heapKey("E", u.Elem()), typ: u.Elem()}
		case *types.Pointer:
			return lval{kind: "heapkey", key: vc.heapKey("H", u.Elem()), typ: u.Elem()}
		case *types.Map:
			return lval{kind: "map", typ: t}
		}
		c.fail("modifies %s: unsupported type", m)
	}
	if strings.HasSuffix(m, "[*]") {
		s, t := c.evalText(strings.TrimSuffix(m, "[*]"))
		sl, ok := t.Underlying().(*types.Slice)
		if !ok {
			c.fail("modifies %s: not a slice", m)
		}
		return lval{kind: "elems", key: vc.heapKey("E", sl.Elem()), ptr: fmt.Sprintf("(s-arr %s)", s), typ: sl.Elem()}
	}
	if strings.HasPrefix(m, "*") {
		p, t := c.evalText(strings.TrimPrefix(m, "*"))
		et := pointee(t)
		if et == nil {
			c.fail("modifies %s: not a pointer", m)
		}
		return lval{kind: "object", key: vc.heapKey("H", et), ptr: p, typ: et}
	}
	ck, err := c.x.eng.check(c.pkgPath, c.order, m, c.src)
	if err != nil {
		c.x.eng.fatalf("%v", err)
	}
	c.info = ck.info
	if c.bound == nil {
		c.bound = map[types.Object]string{}
	}
	if se, ok := ck.expr.(*ast.SelectorExpr); ok {
		selInfo := c.info.Selections[se]
		if selInfo != nil && selInfo.Kind() == types.FieldVal {
			x0, t := c.expr(se.X)
			idx := selInfo.Index()
			var path []sel
			var key, ptr string
			var rootT types.Type
			// a local struct variable that lives in the heap (its address escapes): start at its own cell
			if id, isID := se.X.(*ast.Ident); isID && pointee(t) == nil {
				if b := c.vars[id.Name]; b != nil && b.loc != nil && b.loc.kind == lHeap && len(b.loc.path) == 0 {
					key, ptr, rootT = b.loc.key, b.loc.ptr, b.loc.rootT
				}
			}
			for _, i := range idx {
				if pt := pointee(t); pt != nil {
					// restart at the pointed-to object
					if key != "" {
						x0 = c.x.applyPath(fmt.Sprintf("(select %s %s)", vc.heapGet(c.state(), key), ptr), path)
					}
					key, ptr, rootT, path = vc.heapKey("H", pt), x0, pt, nil
					t = pt
				}
				if key == "" {
					c.fail("modifies %s: not reachable through a pointer", m)
				}
				path = append(path, sel{field: i, structT: t})
				t = structOf(t).Field(i).Type()
			}
			return lval{kind: "field", key: key, ptr: ptr, rootT: rootT, typ: t, path: path}
		}
	}
	_, t := c.expr(ck.expr)
	if _, ok := t.Underlying().(*types.Map); ok {
		return lval{kind: "map", typ: t}
	}
	c.fail("unsupported modifies item %q", m)
	return lval{}
}

// modClauseKeys: static heap keys touched by a modifies item (for loop havoc)
func (e *Engine) modClauseKeys(vc *VC, ct *FuncContract, callee *ssa.Function, c *ssa.CallCommon, m string) (keys []string, ghost string, err error) {
	m = strings.TrimSpace(m)
	if m == "external" {
		var ks []string
		for k := range vc.heapNames {
			if isExternalKey(k) {
				ks = append(ks, k)
			}
		}
		return ks, "", nil
	}
	if i := strings.Index(m, "("); i > 0 && strings.HasSuffix(m, ")") {
		name := strings.TrimSpace(m[:i])
		if g, srt, ok := e.gfieldLookup(ct.PkgPath, name); ok {
			name = g.Name
			_ = srt
			return []string{vc.ghostHeapKey(name, e.ghostArrSort(vc, name))}, "", nil
		}
	}
	if strings.HasPrefix(m, "ghost ") {
		return nil, strings.TrimSpace(strings.TrimPrefix(m, "ghost ")), nil
	}
	if strings.HasPrefix(m, "all ") {
		sp := ct.PkgPath
		if sp == "" && callee != nil {
			sp = fnPkgPath(callee)
		}
		t := e.typeFromText(sp, strings.TrimSpace(strings.TrimPrefix(m, "all ")), ct.Src)
		switch u := t.Underlying().(type) {
		case *types.Slice:
			return []string{vc.heapKey("E", u.Elem())}, "", nil
		case *types.Pointer:
			return []string{vc.heapKey("H", u.Elem())}, "", nil
		case *types.Map:
			return []string{vc.heapKey("MH", t), vc.heapKey("MV", t), vc.heapKey("MC", t)}, "", nil
		}
		return nil, "", fmt.Errorf("unsupported type in modifies all")
	}
	names, typs := calleeNames(ct, callee, c)
	var vars []scopeVar
	for i := range names {
		vars = append(vars, scopeVar{names[i], typs[i]})
	}
	if callee != nil {
		for _, fv := range callee.FreeVars {
			vars = append(vars, scopeVar{fv.Name(), pointee(fv.Type())})
		}
	}
	text := m
	elems := false
	deref := false
	if strings.HasSuffix(m, "[*]") {
		text = strings.TrimSuffix(m, "[*]")
		elems = true
	} else if strings.HasPrefix(m, "*") {
		text = strings.TrimPrefix(m, "*")
		deref = true
	}
	scopePkg := ct.PkgPath
	if scopePkg == "" && callee != nil {
		scopePkg = fnPkgPath(callee)
	}
	ck, err := e.check(scopePkg, vars, text, ct.Src)
	if err != nil {
		return nil, "", err
	}
	t := ck.info.Types[ck.expr].Type
	switch {
	case elems:
		return []string{vc.heapKey("E", t.Underlying().(*types.Slice).Elem())}, "", nil
	case deref:
		return []string{vc.heapKey("H", pointee(t))}, "", nil
	}
	if se, ok := ck.expr.(*ast.SelectorExpr); ok {
		selInfo := ck.info.Selections[se]
		if selInfo != nil && selInfo.Kind() == types.FieldVal {
			rt := ck.info.Types[se.X].Type
			var key string
			for _, i := range selInfo.Index() {
				if pt := pointee(rt); pt != nil {
					key = vc.heapKey("H", pt)
					rt = pt
				}
				rt = structOf(rt).Field(i).Type()
			}
			if key != "" {
				return []string{key}, "", nil
			}
		}
	}
	if _, ok := t.Underlying().(*types.Map); ok {
		return []string{vc.heapKey("MH", t), vc.heapKey("MV", t), vc.heapKey("MC", t)}, "", nil
	}
	return nil, "", fmt.Errorf("unsupported modifies item")
}

// ------------------------------------------------------------------ builtins

func (x *Exec) builtin(fr *Frame, st *State, b *ssa.Builtin, c *ssa.CallCommon, args []Val, pos token.Pos, resT types.Type) Val {
	vc := x.vc
	switch b.Name() {
	case "len", "cap":
		a := args[0].T
		switch u := c.Args[0].Type().Underlying().(type) {
		case *types.Slice:
			if b.Name() == "len" {
				return Val{T: fmt.Sprintf("(s-len %s)", a)}
			}
			return Val{T: fmt.Sprintf("(s-cap %s)", a)}
		case *types.Basic:
			return Val{T: fmt.Sprintf("(strlen %s)", a)}
		case *types.Map:
			k := vc.heapKey("MC", c.Args[0].Type())
			t := vc.define("maplen", "Int", fmt.Sprintf("(ite (= %s 0) 0 (select %s %s))", a, vc.heapGet(st, k), a))
			vc.assume(st.pc, fmt.Sprintf("(>= %s 0)", t))
			return Val{T: t}
		case *types.Array:
			return Val{T: fmt.Sprint(u.Len())}
		case *types.Pointer:
			return Val{T: fmt.Sprint(u.Elem().Underlying().(*types.Array).Len())}
		case *types.Chan:
			vc.uf("chanlen", []string{"Int"}, "Int")
			return x.freshTyped(st, "chanlen", types.Typ[types.Int])
		}
	case "append":
		return x.appendOp(fr, st, c, args, pos)
	case "copy":
		return x.copyOp(fr, st, c, args)
	case "delete":
		// site `before:delete#k`: arg0 = the map, arg1 = the key (evaluated before the entry is removed)
		x.atSite(fr, st, "before:delete", fr.siteOrd("delete", fr.curInstr), map[string]Val{"arg0": args[0], "arg1": args[1]}, map[string]types.Type{"arg0": c.Args[0].Type(), "arg1": c.Args[1].Type()})
		m, k := args[0].T, args[1].T
		mt := c.Args[0].Type()
		kh, kc := vc.heapKey("MH", mt), vc.heapKey("MC", mt)
		hh, hc := vc.heapGet(st, kh), vc.heapGet(st, kc)
		had := fmt.Sprintf("(and (not (= %s 0)) (select (select %s %s) %s))", m, hh, m, k)
		st.heap[kc] = vc.define("h", vc.heapSorts[kc], fmt.Sprintf("(ite %s (store %s %s (- (select %s %s) 1)) %s)", had, hc, m, hc, m, hc))
		st.heap[kh] = vc.define("h", vc.heapSorts[kh], fmt.Sprintf("(ite (= %s 0) %s (store %s %s (store (select %s %s) %s false)))", m, hh, hh, m, hh, m, k))
		return Val{}
	case "min", "max":
		op := "<="
		if b.Name() == "max" {
			op = ">="
		}
		t := args[0].T
		for _, a := range args[1:] {
			t = fmt.Sprintf("(ite (%s %s %s) %s %s)", op, t, a.T, t, a.T)
		}
		return Val{T: t}
	case "close":
		x.atSite(fr, st, "close", fr.siteOrd("close", fr.curInstr), map[string]Val{"ch": args[0]}, map[string]types.Type{"ch": c.Args[0].Type()})
		return Val{}
	case "print", "println":
		return Val{}
	case "recover":
		return x.freshTyped(st, "recover", resT)
	case "ssa:wrapnilchk":
		x.nilCheck(fr, st, args[0].T, pos, "nil check")
		return args[0]
	case "ssa:deferstack":
		return Val{T: "0"}
	case "clear":
		if mt, ok := c.Args[0].Type().Underlying().(*types.Map); ok {
			_ = mt
			m := args[0].T
			t := c.Args[0].Type()
			kh, kc := vc.heapKey("MH", t), vc.heapKey("MC", t)
			st.heap[kh] = fmt.Sprintf("(store %s %s ((as const (Array %s Bool)) false))", vc.heapGet(st, kh), m, vc.sortOf(mt.Key()))
			st.heap[kc] = fmt.Sprintf("(store %s %s 0)", vc.heapGet(st, kc), m)
			return Val{}
		}
	}
	vc.abstracted = append(vc.abstracted, fmt.Sprintf("%s: builtin %s", fr.unit, b.Name()))
	x.vc.havocAll(st)
	if resT == nil {
		return Val{}
	}
	if tup, ok := resT.(*types.Tuple); ok && tup.Len() == 0 {
		return Val{}
	}
	return x.freshTyped(st, "builtin", resT)
}

func (x *Exec) appendOp(fr *Frame, st *State, c *ssa.CallCommon, args []Val, pos token.Pos) Val {
	vc := x.vc
	s, t := args[0].T, args[1].T
	st0 := c.Args[0].Type().Underlying().(*types.Slice)
	et := st0.Elem()
	k := vc.heapKey("E", et)
	E := vc.heapGet(st, k)
	esort := vc.sortOf(et)
	if isStringT(c.Args[1].Type()) {
		// append([]byte, string...)
		r := vc.freshConst("app", "Slice")
		vc.assume(st.pc, fmt.Sprintf("(= (s-len %s) (+ (s-len %s) (strlen %s)))", r, s, t))
		vc.assumeTyped(st, r, c.Args[0].Type())
		st.heap[k] = vc.freshConst("hv_"+vc.heapNames[k], vc.heapSorts[k])
		x.bumpAlloc(st)
		return Val{T: r}
	}
	// number of appended elements, when syntactically known
	nKnown := -1
	if sl, ok := c.Args[1].(*ssa.Slice); ok && sl.Low == nil && sl.High == nil {
		if al, ok := sl.X.(*ssa.Alloc); ok {
			if at, ok := pointee(al.Type()).Underlying().(*types.Array); ok && at.Len() <= 4 {
				nKnown = int(at.Len())
			}
		}
	}
	if cst, ok := c.Args[1].(*ssa.Const); ok && cst.Value == nil {
		nKnown = 0
	}
	// declared constants (not macros): they occur inside quantifier patterns
	ls := vc.freshConst("app_ls", "Int")
	vc.assume("true", fmt.Sprintf("(= %s (s-len %s))", ls, s))
	lt := fmt.Sprint(nKnown)
	if nKnown < 0 {
		lt = vc.freshConst("app_lt", "Int")
		vc.assume("true", fmt.Sprintf("(= %s (s-len %s))", lt, t))
	}
	n := vc.define("app_n", "Int", fmt.Sprintf("(+ %s %s)", ls, lt))
	fits := vc.freshDef("app_fits", "Bool", fmt.Sprintf("(<= %s (s-cap %s))", n, s))
	newID := x.allocID(st)
	newCap := vc.freshConst("app_cap", "Int")
	vc.assume(st.pc, fmt.Sprintf("(>= %s %s)", newCap, n))
	r := vc.freshDef("app", "Slice", fmt.Sprintf("(ite %s (mk-slice (s-arr %s) (s-off %s) %s (s-cap %s)) (mk-slice %s 0 %s %s))", fits, s, s, n, s, newID, n, newCap))
	As := fmt.Sprintf("(select %s (s-arr %s))", E, s)
	At := fmt.Sprintf("(select %s (s-arr %s))", E, t)
	var Afit string
	Anew := vc.freshConst("app_new", fmt.Sprintf("(Array Int %s)", esort))
	q := vc.fresh("j")
	// source and destination cells are written with eidx(off, i), the form in
	// which contracts and invariants read slice elements (pattern matching)
	vc.assume(st.pc, fmt.Sprintf("(forall ((%s Int)) (! (=> (and (<= 0 %s) (< %s %s)) (= (select %s %s) (select %s (eidx (s-off %s) %s)))) :pattern ((select %s %s))))", q, q, q, ls, Anew, q, As, s, q, Anew, q))
	if nKnown >= 0 {
		Afit = As
		for j := 0; j < nKnown; j++ {
			v := fmt.Sprintf("(select %s (eidx (s-off %s) %d))", At, t, j)
			Afit = fmt.Sprintf("(store %s (+ (s-off %s) %s %d) %s)", Afit, s, ls, j, v)
			vc.assume(st.pc, fmt.Sprintf("(= (select %s (+ %s %d)) %s)", Anew, ls, j, v))
		}
	} else {
		Afit = vc.freshConst("app_fit", fmt.Sprintf("(Array Int %s)", esort))
		vc.assume(st.pc, fmt.Sprintf("(forall ((%s Int)) (! (= (select %s %s) (ite (and (<= (+ (s-off %s) %s) %s) (< %s (+ (s-off %s) %s))) (select %s (eidx (s-off %s) (- %s (+ (s-off %s) %s)))) (select %s %s))) :pattern ((select %s %s))))",
			q, Afit, q, s, ls, q, q, s, n, At, t, q, s, ls, As, q, Afit, q))
		// appended part, by absolute index (the pattern matches every read of the new block)
		vc.assume(st.pc, fmt.Sprintf("(forall ((%s Int)) (! (=> (and (<= %s %s) (< %s %s)) (= (select %s %s) (select %s (eidx (s-off %s) (- %s %s))))) :pattern ((select %s %s))))", q, ls, q, q, n, Anew, q, At, t, q, ls, Anew, q))
	}
	st.heap[k] = vc.freshDef("h_app", vc.heapSorts[k], fmt.Sprintf("(ite %s (store %s (s-arr %s) %s) (store %s %s %s))", fits, E, s, Afit, E, newID, Anew))
	return Val{T: r}
}

func (x *Exec) bumpAlloc(st *State) {
	old := st.alloc
	st.alloc = x.vc.freshConst("alloc", "Int")
	x.vc.assume(st.pc, fmt.Sprintf("(>= %s %s)", st.alloc, old))
}

func (x *Exec) copyOp(fr *Frame, st *State, c *ssa.CallCommon, args []Val) Val {
	vc := x.vc
	d, s := args[0].T, args[1].T
	et := c.Args[0].Type().Underlying().(*types.Slice).Elem()
	k := vc.heapKey("E", et)
	E := vc.heapGet(st, k)
	esort := vc.sortOf(et)
	if isStringT(c.Args[1].Type()) {
		n := vc.define("copy_n", "Int", fmt.Sprintf("(ite (<= (s-len %s) (strlen %s)) (s-len %s) (strlen %s))", d, s, d, s))
		st.heap[k] = fmt.Sprintf("(store %s (s-arr %s) %s)", E, d, vc.freshConst("copy_str", fmt.Sprintf("(Array Int %s)", esort)))
		return Val{T: n}
	}
	n := vc.freshConst("copy_n", "Int")
	vc.assume("true", fmt.Sprintf("(= %s (ite (<= (s-len %s) (s-len %s)) (s-len %s) (s-len %s)))", n, d, s, d, s))
	// declared constants (not macros): they occur inside quantifier patterns
	od := vc.freshConst("copy_od", "Int")
	os := vc.freshConst("copy_os", "Int")
	vc.assume("true", fmt.Sprintf("(and (= %s (s-off %s)) (= %s (s-off %s)))", od, d, os, s))
	Ad := fmt.Sprintf("(select %s (s-arr %s))", E, d)
	As := fmt.Sprintf("(select %s (s-arr %s))", E, s)
	A := vc.freshConst("copy_dst", fmt.Sprintf("(Array Int %s)", esort))
	q := vc.fresh("j")
	// copied part, relative to the destination's offset (so that a shift
	// inside one block instantiates invariants stated over that block)
	vc.assume(st.pc, fmt.Sprintf("(forall ((%s Int)) (! (=> (and (<= 0 %s) (< %s %s)) (= (select %s (eidx %s %s)) (select %s (eidx %s (+ %s (- %s %s)))))) :pattern ((select %s (eidx %s %s)))))",
		q, q, q, n, A, od, q, As, od, q, os, od, A, od, q))
	// everything else keeps its value
	vc.assume(st.pc, fmt.Sprintf("(forall ((%s Int)) (! (=> (or (< %s %s) (>= %s (+ %s %s))) (= (select %s %s) (select %s %s))) :pattern ((select %s %s))))",
		q, q, od, q, od, n, A, q, Ad, q, A, q))
	st.heap[k] = vc.freshDef("h_copy", vc.heapSorts[k], fmt.Sprintf("(store %s (s-arr %s) %s)", E, d, A))
	return Val{T: n}
}

// ------------------------------------------------------------------ go / sites / own clauses

func (x *Exec) spawn(fr *Frame, st *State, g *ssa.Go) {
	ord := fr.siteOrd("go", g)
	c := g.Common()
	callee := c.StaticCallee()
	var ct *FuncContract
	if callee != nil {
		ct = x.eng.contractFor(callee)
	}
	if ct != nil && callee != nil {
		var args []Val
		for _, a := range c.Args {
			v := x.value(fr, st, a)
			args = append(args, Val{T: x.term(fr, st, v)})
		}
		clo, _ := c.Value.(*ssa.MakeClosure)
		names, typs := calleeNames(ct, callee, c)
		ctx := &EvalCtx{x: x, fr: fr, st: st, old: st, pkgPath: ct.PkgPath, vars: map[string]*binding{}}
		for i, n := range names {
			ctx.vars[n] = &binding{val: args[i], typ: typs[i]}
			ctx.order = append(ctx.order, scopeVar{n, typs[i]})
		}
		if clo != nil {
			for i, fv := range callee.FreeVars {
				bv := x.value(fr, st, clo.Bindings[i])
				b := &binding{typ: pointee(fv.Type())}
				if bv.Loc != nil {
					b.loc = bv.Loc
				} else {
					b.loc = &Loc{kind: lHeap, key: x.vc.heapKey("H", pointee(fv.Type())), ptr: bv.T, rootT: pointee(fv.Type()), typ: pointee(fv.Type())}
				}
				ctx.vars[fv.Name()] = b
				ctx.order = append(ctx.order, scopeVar{fv.Name(), b.typ})
			}
		}
		x.addGhostVars(ctx, fr, st)
		ct.used = true
		for k, r := range ct.Requires {
			ctx.src = r.Src
			t, _ := ctx.evalText(r.Text)
			x.vc.oblige(fmt.Sprintf("%s/pre@go#%d:%s", fr.unit, ord, clauseID(r, k)), "pre", fr.unit, x.pos(g.Pos()), "precondition of spawned "+ct.Key+": "+r.Text, st.pc, t)
		}
	}
	x.atSite(fr, st, "go", ord, nil, nil)
}

func (x *Exec) addGhostVars(ctx *EvalCtx, fr *Frame, st *State) {
	for g, srt := range fr.ghostLoc {
		t := fr.ghostTyp[g]
		if t == nil {
			t = types.Typ[types.Int]
		}
		if _, dup := ctx.vars[g]; dup {
			continue
		}
		ctx.vars[g] = &binding{val: Val{T: x.vc.ghostGet(st, "local:"+g, srt)}, typ: t}
		ctx.order = append(ctx.order, scopeVar{g, t})
	}
}

// ownCtx builds the evaluation context for clauses of the function being
// verified.  body=true: names denote current values of locals; otherwise
// parameters denote their entry values.
func (x *Exec) ownCtx(fr *Frame, st *State, body bool) *EvalCtx {
	ct := fr.ct
	pkg := ""
	if ct != nil {
		pkg = ct.PkgPath
	} else if fr.fn.Pkg != nil {
		pkg = fr.fn.Pkg.Pkg.Path()
	}
	ctx := &EvalCtx{x: x, fr: fr, st: st, old: fr.entry, pkgPath: pkg, vars: map[string]*binding{}}
	if ct != nil {
		ctx.math = ct.Math
	}
	add := func(n string, b *binding) {
		if n == "" || n == "_" {
			return
		}
		if _, dup := ctx.vars[n]; dup {
			return
		}
		ctx.vars[n] = b
		ctx.order = append(ctx.order, scopeVar{n, b.typ})
	}
	for i, p := range fr.fn.Params {
		n := p.Name()
		if fr.paramAlias != nil && i < len(fr.paramAlias) && fr.paramAlias[i] != "" {
			n = fr.paramAlias[i]
		}
		pv := fr.regs[p]
		b := &binding{val: pv, typ: p.Type(), oldv: &pv}
		if body {
			if a, ok := fr.names[p.Name()].(*ssa.Alloc); ok && fr.reassigned(a) {
				if lv, has := fr.regs[a]; has && lv.Loc != nil {
					b = &binding{loc: lv.Loc, typ: p.Type(), oldv: &pv}
				}
			}
		}
		add(n, b)
	}
	for _, fv := range fr.fn.FreeVars {
		v := fr.regs[fv]
		et := pointee(fv.Type())
		add(fv.Name(), &binding{loc: &Loc{kind: lHeap, key: x.vc.heapKey("H", et), ptr: v.T, rootT: et, typ: et}, typ: et,
			oldv: nil})
	}
	if body {
		// several locals may share a source name (shadowing, one `i` per switch
		// case): `name`, `name#2`, ...  The name denotes the first declared one
		// that is live in this state (allocated on the path that leads here): the
		// outer variable when an inner one shadows it, the case's own variable
		// when the same name is declared once per switch case.
		type cand struct {
			k int
			a *ssa.Alloc
		}
		groups := map[string][]cand{}
		for n, v := range fr.names {
			a, ok := v.(*ssa.Alloc)
			if !ok {
				continue
			}
			base, k := n, 1
			if i := strings.LastIndex(n, "#"); i > 0 {
				if kk, err := strconv.Atoi(n[i+1:]); err == nil {
					base, k = n[:i], kk
				}
			}
			groups[base] = append(groups[base], cand{k, a})
		}
		chosen := map[string]*ssa.Alloc{}
		for base, cs := range groups {
			sort.Slice(cs, func(i, j int) bool { return cs[i].k < cs[j].k })
			for _, c := range cs {
				lv, has := fr.regs[c.a]
				if !has {
					continue
				}
				if lv.Loc != nil && lv.Loc.kind == lCell {
					if _, live := st.cells[lv.Loc.cell]; !live {
						continue
					}
				}
				chosen[base] = c.a
				break
			}
		}
		for n, a := range chosen {
			lv, has := fr.regs[a]
			if !has {
				continue // not yet allocated on this path
			}
			et := pointee(a.Type())
			if lv.Loc != nil {
				add(n, &binding{loc: lv.Loc, typ: et})
			} else if lv.ArrBlock {
				// arrays as locals: expose as pointer-to-array
				add(n, &binding{val: lv, typ: a.Type()})
			}
		}
	}
	x.addGhostVars(ctx, fr, st)
	return ctx
}

// reassigned: the spilled parameter cell is written after the initial spill.
func (fr *Frame) reassigned(a *ssa.Alloc) bool {
	n := 0
	for _, b := range fr.fn.Blocks {
		for _, in := range b.Instrs {
			if s, ok := in.(*ssa.Store); ok {
				root := s.Addr
				for {
					if fa, ok := root.(*ssa.FieldAddr); ok {
						root = fa.X
						continue
					}
					if ia, ok := root.(*ssa.IndexAddr); ok {
						root = ia.X
						continue
					}
					break
				}
				if root == ssa.Value(a) {
					n++
				}
			}
		}
	}
	// captured parameters may also be written by closures; be conservative
	if a.Heap && n <= 1 {
		for _, af := range fr.fn.AnonFuncs {
			for _, fv := range af.FreeVars {
				if fv.Name() == a.Comment {
					for _, b := range af.Blocks {
						for _, in := range b.Instrs {
							if s, ok := in.(*ssa.Store); ok && s.Addr == ssa.Value(fv) {
								n++
							}
						}
					}
				}
			}
		}
	}
	return n > 1
}

// assumeGlobalInvs (re-)assumes the package-level invariants of the packages
// whose state the current function can read.  They are established by the
// package initialisers and never written afterwards (C16 frame sweep).
func (x *Exec) assumeGlobalInvs(fr *Frame, st *State) {
	if len(x.eng.db.GlobalInvs) == 0 {
		return
	}
	root := fr
	pkg := fnPkgPath(root.fn)
	for _, gi := range x.eng.db.GlobalInvs {
		if gi.PkgPath != pkg && !x.eng.imports(pkg, gi.PkgPath) {
			continue
		}
		ctx := &EvalCtx{x: x, fr: fr, st: st, old: nil, pkgPath: gi.PkgPath, vars: map[string]*binding{}, src: gi.Clause.Src}
		t, _ := ctx.evalText(gi.Clause.Text)
		x.vc.assume(st.pc, t)
		x.vc.usedAssumed["global invariant of "+gi.PkgPath+" (established by the package initialiser, never written: see C16): "+gi.Clause.Text] = true
	}
}

func (x *Exec) evalClauseInt(fr *Frame, st *State, cl Clause, extra map[string]Val) string {
	return x.evalClause(fr, st, cl, extra)
}

func (x *Exec) evalClause(fr *Frame, st *State, cl Clause, extra map[string]Val) string {
	ctx := x.ownCtx(fr, st, true)
	ctx.src = cl.Src
	for n, v := range extra {
		if _, dup := ctx.vars[n]; !dup {
			ctx.order = append(ctx.order, scopeVar{n, types.Typ[types.Int]})
		}
		ctx.vars[n] = &binding{val: v, typ: types.Typ[types.Int]}
	}
	t, _ := ctx.evalText(cl.Text)
	return t
}

// atSite processes `at <site> ...` clauses of the current function's contract.
func (x *Exec) atSite(fr *Frame, st *State, kind string, ord int, vals map[string]Val, typs map[string]types.Type) {
	if fr.ct == nil {
		return
	}
	site := kind
	if ord >= 0 {
		site = fmt.Sprintf("%s#%d", kind, ord)
	}
	if fr.inlineTag != "" {
		return
	}
	for k, at := range fr.ct.Ats {
		if at.Site != site && !(fr.altSite != "" && at.Site == fr.altSite) {
			// wildcard ordinal: kind#*
			if !(strings.HasSuffix(at.Site, "#*") && strings.HasPrefix(site, strings.TrimSuffix(at.Site, "*")) && !strings.Contains(strings.TrimPrefix(site, strings.TrimSuffix(at.Site, "*")), "#")) {
				continue
			}
		}
		fr.atUsed()[k] = true
		ctx := x.ownCtx(fr, st, true)
		ctx.src = at.Clause.Src
		for n, v := range x.iterVars(fr, st, nil) {
			if _, dup := ctx.vars[n]; !dup {
				ctx.order = append(ctx.order, scopeVar{n, types.Typ[types.Int]})
				ctx.vars[n] = &binding{val: v, typ: types.Typ[types.Int]}
			}
		}
		for n, v := range vals {
			if _, dup := ctx.vars[n]; !dup {
				ctx.order = append(ctx.order, scopeVar{n, typs[n]})
			}
			ctx.vars[n] = &binding{val: v, typ: typs[n]}
		}
		switch at.Kind {
		case "invariant":
			// handled by the iteration rule (iterateCall)
		case "assert":
			t, _ := ctx.evalText(at.Clause.Text)
			x.vc.oblige(fmt.Sprintf("%s/assert@%s#%d", fr.unit, site, k), "assert", fr.unit, at.Clause.Src, at.Clause.Text, st.pc, t)
		case "assume":
			t, _ := ctx.evalText(at.Clause.Text)
			x.vc.assume(st.pc, t)
			x.vc.usedAssumed[fmt.Sprintf("assume at %s of %s: %s", site, fr.unit, at.Clause.Text)] = true
		case "set":
			parts := strings.SplitN(at.Clause.Text, "=", 2)
			g := strings.TrimSpace(parts[0])
			if key, obj, esrt, isField := x.ghostFieldLval(fr, ctx, g); isField {
				// ghost field of one object: G|name[obj] := value
				t, _ := ctx.evalText(strings.TrimSpace(parts[1]))
				st.heap[key] = fmt.Sprintf("(store %s %s %s)", x.vc.heapGet(st, key), obj, x.vc.define("gset", esrt, t))
				break
			}
			srt, ok := fr.ghostLoc[g]
			if !ok {
				x.eng.fatalf("%s: set of undeclared ghost variable %s", at.Clause.Src, g)
			}
			t, _ := ctx.evalText(strings.TrimSpace(parts[1]))
			st.ghost["local:"+g] = x.vc.define("ghost_"+g, srt, t)
		case "use":
			x.useLemma(fr, st, at.Clause)
		case "pure", "pass":
		case "havoc":
			// interference: another thread may have changed this location (e.g. before a lock is acquired)
			g := strings.TrimSpace(at.Clause.Text)
			if srt, ok := fr.ghostLoc[g]; ok {
				st.ghost["local:"+g] = x.vc.freshConst("hv_ghost_"+g, srt)
				break
			}
			lv := ctx.lvalue(g)
			if lv.kind != "field" {
				x.eng.fatalf("%s: havoc expects a field or a ghost variable", at.Clause.Src)
			}
			f := x.vc.freshConst("hv_f", x.vc.sortOf(lv.typ))
			x.vc.assumeTyped(st, f, lv.typ)
			x.store(fr, st, &Loc{kind: lHeap, key: lv.key, ptr: lv.ptr, rootT: lv.rootT, typ: lv.typ, path: lv.path}, f)
		default:
			x.eng.fatalf("%s: unknown at-kind %q", at.Clause.Src, at.Kind)
		}
	}
}

// ghostFieldLval resolves `name(expr)` where name is a ghost field of the unit's package.
func (x *Exec) ghostFieldLval(fr *Frame, ctx *EvalCtx, g string) (key, obj, esrt string, ok bool) {
	i := strings.Index(g, "(")
	if i <= 0 || !strings.HasSuffix(g, ")") {
		return
	}
	gf, srt, found := x.eng.gfieldLookup(fnPkgPath(fr.fn), strings.TrimSpace(g[:i]))
	if !found {
		return
	}
	key = x.vc.ghostHeapKey(gf.Name, x.eng.ghostArrSort(x.vc, gf.Name))
	if ctx != nil {
		obj, _ = ctx.evalText(g[i+1 : len(g)-1])
	}
	return key, obj, srt, true
}

func (fr *Frame) atUsed() map[int]bool {
	if fr.atSeen == nil {
		fr.atSeen = map[int]bool{}
	}
	return fr.atSeen
}

func (x *Exec) declPsumIf() { x.declPsum() }

// useLemma: "lemmaName(args)" — assert the lemma's preconditions, assume its postconditions.
func (x *Exec) useLemma(fr *Frame, st *State, cl Clause) {
	i := strings.Index(cl.Text, "(")
	j := matchParen(cl.Text, i)
	if i < 0 || j < 0 {
		x.eng.fatalf("%s: bad lemma use", cl.Src)
	}
	name := strings.TrimSpace(cl.Text[:i])
	argTexts := splitTop(cl.Text[i+1:j], ',')
	if name == "psumStep" {
		// built-in: one instance of the defining equation of psum
		if len(argTexts) != 2 {
			x.eng.fatalf("%s: psumStep(f, k)", cl.Src)
		}
		ctx := x.ownCtx(fr, st, true)
		ctx.src = cl.Src
		for n, v := range x.iterVars(fr, st, nil) {
			ctx.vars[n] = &binding{val: v, typ: types.Typ[types.Int]}
			ctx.order = append(ctx.order, scopeVar{n, types.Typ[types.Int]})
		}
		f, _ := ctx.evalText(argTexts[0])
		k, _ := ctx.evalText(argTexts[1])
		x.declPsumIf()
		x.vc.assume(st.pc, fmt.Sprintf("(=> (> %s 0) (= (psum %s %s) (+ (psum %s (- %s 1)) (apply1 %s (- %s 1)))))", k, f, k, f, k, f, k))
		return
	}
	pkg := fr.ct.PkgPath
	lct := x.eng.db.Funcs[pkg+" "+name]
	lfn := x.eng.funcByKey(pkg, name)
	if lct == nil || lfn == nil {
		x.eng.fatalf("%s: lemma %s not found (needs a ghost function and a contract)", cl.Src, name)
	}
	lct.used = true
	ctx := x.ownCtx(fr, st, true)
	ctx.src = cl.Src
	sub := &EvalCtx{x: x, fr: fr, st: st, old: st, pkgPath: pkg, vars: map[string]*binding{}, src: cl.Src}
	for k, p := range lfn.Params {
		if k >= len(argTexts) {
			x.eng.fatalf("%s: lemma %s: too few arguments", cl.Src, name)
		}
		t, _ := ctx.evalText(argTexts[k])
		sub.vars[p.Name()] = &binding{val: Val{T: t}, typ: p.Type()}
		sub.order = append(sub.order, scopeVar{p.Name(), p.Type()})
	}
	for k, r := range lct.Requires {
		sub.src = r.Src
		g, _ := sub.evalText(r.Text)
		x.vc.oblige(fmt.Sprintf("%s/lemma-pre@%s#%d:%s", fr.unit, name, fr.nextOrd("lemma:"+name), clauseID(r, k)), "pre", fr.unit, cl.Src, "precondition of lemma "+name+": "+r.Text, st.pc, g)
	}
	for _, e := range lct.Ensures {
		sub.src = e.Src
		g, _ := sub.evalText(e.Text)
		x.vc.assume(st.pc, g)
	}
}

// iterateCall is the proof rule for a (dependency) function specified with
// `iterates f count N`: it calls the closure argument f once for every index
// 0..N-1 in order and stops early when f returns false; nothing else is
// visible.  The caller supplies `at <site> invariant I` clauses over `iter`
// (the number of completed calls).  Obligations: I holds for iter = 0; from
// I(i), 0 <= i < N, one execution of the closure (its contract, or its body)
// re-establishes I(i+1) and returns true.  Afterwards I(N) is assumed.
func (x *Exec) iterateCall(fr *Frame, st *State, ct *FuncContract, callee *ssa.Function, c *ssa.CallCommon, recv *Val, args []Val, site, alt string, pos token.Pos) Val {
	vc := x.vc
	ct.used = true
	if ct.Assumed {
		vc.usedAssumed[ct.Kind+" "+ct.Key] = true
	}
	names, typs := calleeNames(ct, callee, c)
	vals := args
	if c.IsInvoke() {
		vals = append([]Val{*recv}, args...)
	}
	fi := -1
	for i, n := range names {
		if n == ct.IterFn {
			fi = i
		}
	}
	if fi < 0 || fi >= len(vals) || vals[fi].Clo == nil {
		x.eng.fatalf("%s: iterates %s: the argument is not a function literal", x.pos(pos), ct.IterFn)
		x.havocAllKeep(st, x.closureWritten())
		return Val{}
	}
	clo := vals[fi].Clo
	cloFr := vals[fi].CloFr
	if cloFr == nil {
		cloFr = fr
	}
	cloFn := clo.Fn.(*ssa.Function)
	fsig, _ := typs[fi].Underlying().(*types.Signature)
	scopePkg := ct.PkgPath
	if scopePkg == "" {
		scopePkg = fnPkgPath(fr.fn)
	}
	mkSpec := func(cur *State) *EvalCtx {
		ctx := &EvalCtx{x: x, fr: fr, st: cur, old: cur, pkgPath: scopePkg, vars: map[string]*binding{}, math: ct.Math, src: ct.Src}
		for i, n := range names {
			if i < len(vals) && i != fi {
				ctx.vars[n] = &binding{val: vals[i], typ: typs[i]}
				ctx.order = append(ctx.order, scopeVar{n, typs[i]})
			}
		}
		return ctx
	}
	pre := st.clone()
	nT, _ := mkSpec(pre).evalText(ct.IterCount)
	// the caller's invariants at this site
	type invc struct {
		k  int
		at AtSpec
	}
	var invs []invc
	if fr.ct != nil && fr.inlineTag == "" {
		for k, a := range fr.ct.Ats {
			if a.Kind == "invariant" && (a.Site == site || (alt != "" && a.Site == alt)) {
				fr.atUsed()[k] = true
				invs = append(invs, invc{k, a})
			}
		}
	}
	intT := types.Typ[types.Int]
	evalInv := func(s *State, a AtSpec, iterT string) string {
		ctx := x.ownCtx(fr, s, true)
		ctx.src = a.Clause.Src
		ctx.vars["iter"] = &binding{val: Val{T: iterT}, typ: intT}
		ctx.order = append(ctx.order, scopeVar{"iter", intT})
		t, _ := ctx.evalText(a.Clause.Text)
		return t
	}
	for _, iv := range invs {
		vc.oblige(fmt.Sprintf("%s/iter-init@%s#%d", fr.unit, site, iv.k), "inv-init", fr.unit, iv.at.Clause.Src, "holds before the first call: "+iv.at.Clause.Text, st.pc, evalInv(st, iv.at, "0"))
	}
	// what the iterations may change: the closure's modifies clause, else everything
	cct := x.eng.contractFor(cloFn)
	havoc := func(s *State) {
		done := false
		if cct != nil && cct.HasMod && !cct.ModAll {
			done = true
			var keys []string
			for _, m := range cct.Modifies {
				ks, _, err := x.eng.modClauseKeys(vc, cct, cloFn, nil, m)
				if err != nil {
					done = false
					break
				}
				keys = append(keys, ks...)
			}
			if done {
				for _, k := range keys {
					s.heap[k] = vc.freshConst("hv_"+vc.heapNames[k], vc.heapSorts[k])
				}
				old := s.alloc
				s.alloc = vc.freshConst("alloc", "Int")
				vc.assume(s.pc, fmt.Sprintf("(>= %s %s)", s.alloc, old))
			}
		}
		if !done {
			x.havocAllKeep(s, x.closureWritten())
		}
	}
	// an arbitrary iteration
	body := st.clone()
	havoc(body)
	iT := vc.freshConst("iter", "Int")
	vc.assume(body.pc, fmt.Sprintf("(and (<= 0 %s) (< %s %s))", iT, iT, nT))
	for _, iv := range invs {
		vc.assume(body.pc, evalInv(body, iv.at, iT))
	}
	var cargs []Val
	yctx := mkSpec(pre) // the container as it is when the iteration starts
	yctx.vars["iter"] = &binding{val: Val{T: iT}, typ: intT}
	yctx.order = append(yctx.order, scopeVar{"iter", intT})
	if fsig != nil {
		for i := 0; i < fsig.Params().Len(); i++ {
			pt := fsig.Params().At(i).Type()
			v := x.freshTyped(body, "it_"+fsig.Params().At(i).Name(), pt)
			cargs = append(cargs, v)
			n := fsig.Params().At(i).Name()
			if n == "" || n == "_" {
				n = fmt.Sprintf("it%d", i)
			}
			yctx.vars[n] = &binding{val: v, typ: pt}
			yctx.order = append(yctx.order, scopeVar{n, pt})
		}
	}
	for _, y := range ct.Yields {
		yctx.src = y.Src
		t, _ := yctx.evalText(y.Text)
		vc.assume(body.pc, t)
	}
	synth := &ssa.CallCommon{Value: clo}
	var r Val
	if cct != nil && !cct.Inline {
		r = x.applyContract(fr, body, cct, cloFn, synth, nil, cargs, site+".f", pos, cloFn.Signature.Results().At(0).Type(), clo, cloFr)
	} else {
		var bind []Val
		for _, b := range clo.Bindings {
			bind = append(bind, x.value(cloFr, body, b))
		}
		r = x.inline(fr, body, cloFn, cargs, bind, cct, false)
	}
	if r.T != "" && !ct.IterAny {
		vc.oblige(fmt.Sprintf("%s/iter-continues@%s", fr.unit, site), "assert", fr.unit, x.pos(pos), "the function passed to "+ct.Key+" returns true (early stop is not modelled)", body.pc, r.T)
	}
	next := fmt.Sprintf("(+ %s 1)", iT)
	for _, iv := range invs {
		vc.oblige(fmt.Sprintf("%s/iter-preserved@%s#%d", fr.unit, site, iv.k), "inv-preserved", fr.unit, iv.at.Clause.Src, "preserved by one call: "+iv.at.Clause.Text, body.pc, evalInv(body, iv.at, next))
	}
	// after the last call
	havoc(st)
	for _, iv := range invs {
		vc.assume(st.pc, evalInv(st, iv.at, nT))
	}
	vc.assume(st.pc, fmt.Sprintf("(>= %s 0)", nT))
	return Val{}
}

// ptrParts: the block addresses a value consists of (a pointer, the array of
// a slice, the pointer fields of a struct value such as a pdata wrapper).
func (x *Exec) ptrParts(t string, typ types.Type, depth int) []string {
	switch u := typ.Underlying().(type) {
	case *types.Pointer, *types.Map, *types.Chan:
		return []string{t}
	case *types.Slice:
		return []string{fmt.Sprintf("(s-arr %s)", t)}
	case *types.Struct:
		if depth > 2 {
			return nil
		}
		var out []string
		for i := 0; i < u.NumFields(); i++ {
			out = append(out, x.ptrParts(x.vc.fieldSel(typ, i, t), u.Field(i).Type(), depth+1)...)
		}
		return out
	}
	return nil
}

// mayReceiveCallback: does the call hand a function value, an interface value
// or a pointer / slice / map (which may hold one) of non-dependency type to the
// callee?  Receivers and arguments that are dependency-declared struct values
// (pdata wrappers), basic values and strings cannot carry a closure of the
// calling function.
func mayReceiveCallback(c *ssa.CallCommon) bool {
	check := func(t types.Type) bool {
		switch u := t.Underlying().(type) {
		case *types.Signature, *types.Interface, *types.Map, *types.Chan:
			return true
		case *types.Pointer, *types.Slice:
			_ = u
			if n, ok := types.Unalias(t).(*types.Named); ok && n.Obj().Pkg() != nil && !strings.HasPrefix(n.Obj().Pkg().Path(), repoModulePrefix) {
				return false
			}
			return true
		}
		return false
	}
	if c.IsInvoke() {
		return true
	}
	for _, a := range c.Args {
		if check(a.Type()) {
			return true
		}
	}
	return false
}


// passesFuncValue: is the callee handed a function value (directly as an argument)?
func passesFuncValue(c *ssa.CallCommon, fam *ssa.Function) bool {
	root := func(f *ssa.Function) *ssa.Function {
		for f.Parent() != nil {
			f = f.Parent()
		}
		return f
	}
	for _, a := range c.Args {
		if _, ok := a.Type().Underlying().(*types.Signature); !ok {
			continue
		}
		switch v := a.(type) {
		case *ssa.Function:
			if root(v) != root(fam) {
				continue // a top-level function or a closure-free literal of another function
			}
		case *ssa.MakeClosure:
			if f, ok := v.Fn.(*ssa.Function); ok && root(f) != root(fam) {
				continue // a closure of another function: it captures none of our variables
			}
		}
		return true
	}
	return false
}

var confinedCache = map[*ssa.Function]bool{}

// closuresConfined: every closure created in the function family of fn (its outermost
// enclosing function and all functions nested in it) is used only as the callee of a call or
// as an argument of a static call whose callee - when it is a repository function - only
// calls that parameter (it does not store it, pass it on or return it).
func closuresConfined(eng *Engine, fn *ssa.Function) bool {
	root := fn
	for root.Parent() != nil {
		root = root.Parent()
	}
	if v, ok := confinedCache[root]; ok {
		return v
	}
	ok := true
	var walk func(f *ssa.Function)
	walk = func(f *ssa.Function) {
		for _, b := range f.Blocks {
			for _, in := range b.Instrs {
				mc, isMC := in.(*ssa.MakeClosure)
				if !isMC {
					continue
				}
				if refs := mc.Referrers(); refs != nil {
					for _, r := range *refs {
						if !closureUseConfined(eng, mc, r) {
							ok = false
						}
					}
				}
			}
		}
		for _, a := range f.AnonFuncs {
			walk(a)
		}
	}
	walk(root)
	confinedCache[root] = ok
	return ok
}

func closureUseConfined(eng *Engine, v ssa.Value, r ssa.Instruction) bool {
	switch r := r.(type) {
	case *ssa.DebugRef:
		return true
	case *ssa.Call:
		return callUseConfined(eng, v, &r.Call)
	case *ssa.Defer:
		return callUseConfined(eng, v, &r.Call)
	}
	return false
}

func callUseConfined(eng *Engine, v ssa.Value, c *ssa.CallCommon) bool {
	if c.IsInvoke() {
		return false
	}
	for k, a := range c.Args {
		if a != v {
			continue
		}
		callee := c.StaticCallee()
		if callee == nil {
			return false
		}
		if !eng.isRepoFunc(callee) {
			continue // dependency callee: assumed to call the function value without keeping it
		}
		if k >= len(callee.Params) || !paramOnlyCalled(callee.Params[k]) {
			return false
		}
	}
	return true
}

// paramOnlyCalled: the parameter is only called (NaiveForm: it is spilled to a local cell whose
// loads are only called).
func paramOnlyCalled(p *ssa.Parameter) bool {
	refs := p.Referrers()
	if refs == nil {
		return true
	}
	onlyCalled := func(v ssa.Value) bool {
		rs := v.Referrers()
		if rs == nil {
			return true
		}
		for _, r := range *rs {
			switch r := r.(type) {
			case *ssa.DebugRef:
			case *ssa.Call:
				if r.Call.Value != v {
					return false
				}
				for _, a := range r.Call.Args {
					if a == v {
						return false
					}
				}
			default:
				return false
			}
		}
		return true
	}
	for _, r := range *refs {
		switch r := r.(type) {
		case *ssa.DebugRef:
		case *ssa.Call:
			if r.Call.Value != ssa.Value(p) {
				return false
			}
		case *ssa.Store:
			al, ok := r.Addr.(*ssa.Alloc)
			if !ok || r.Val != ssa.Value(p) {
				return false
			}
			ars := al.Referrers()
			if ars == nil {
				continue
			}
			for _, ar := range *ars {
				switch ar := ar.(type) {
				case *ssa.DebugRef:
				case *ssa.Store:
					if ar != r {
						return false
					}
				case *ssa.UnOp:
					if !onlyCalled(ar) {
						return false
					}
				default:
					return false
				}
			}
		default:
			return false
		}
	}
	return true
}


// keepCapturedAcross: the values of the variables captured by the closure under verification
// are saved before a havoc-all and written back by the returned function, when the callee
// cannot run a closure of the enclosing function (see havocCall).
func (x *Exec) keepCapturedAcross(st *State, c *ssa.CallCommon, callee *ssa.Function) func() {
	none := func() {}
	if os.Getenv("GOVC_DEBUG_KEEP") != "" {
		fmt.Fprintf(os.Stderr, "keep? at %s callee=%v\n", describeCall(c), callee)
	}
	if x.top == nil || len(x.top.fn.FreeVars) == 0 || passesFuncValue(c, x.top.fn) || !closuresConfined(x.eng, x.top.fn) {
		if os.Getenv("GOVC_DEBUG_KEEP") != "" && x.top != nil && len(x.top.fn.FreeVars) > 0 {
			fmt.Fprintf(os.Stderr, "keep: none at %s (passesFunc=%v confined=%v)\n", describeCall(c), passesFuncValue(c, x.top.fn), closuresConfined(x.eng, x.top.fn))
		}
		return none
	}
	root := func(f *ssa.Function) *ssa.Function {
		for f.Parent() != nil {
			f = f.Parent()
		}
		return f
	}
	if callee != nil && root(callee) == root(x.top.fn) {
		return none // a closure of the same function may write the shared variables
	}
	if callee == nil && !c.IsInvoke() {
		return none // a dynamic call of an unknown function value
	}
	type savedFV struct{ key, ptr, val string }
	var fvs []savedFV
	for _, fv := range x.top.fn.FreeVars {
		et := pointee(fv.Type())
		if et == nil {
			continue
		}
		pv, ok := x.top.regs[fv]
		if !ok || pv.T == "" {
			continue
		}
		k := x.vc.heapKey("H", et)
		fvs = append(fvs, savedFV{k, pv.T, x.vc.freshDef("keep_"+fv.Name(), x.vc.sortOf(et), fmt.Sprintf("(select %s %s)", x.vc.heapGet(st, k), pv.T))})
	}
	if os.Getenv("GOVC_DEBUG_KEEP") != "" {
		fmt.Fprintf(os.Stderr, "keep: %d of %d free vars\n", len(fvs), len(x.top.fn.FreeVars))
	}
	if len(fvs) == 0 {
		return none
	}
	x.vc.usedAssumed["closures of the enclosing function are only called or handed to callees that call them without keeping them (checked on the SSA; dependency callees assumed): a callee that is handed no function value leaves the captured variables unchanged"] = true
	return func() {
		for _, f := range fvs {
			st.heap[f.key] = fmt.Sprintf("(store %s %s %s)", x.vc.heapGet(st, f.key), f.ptr, f.val)
		}
	}
}
