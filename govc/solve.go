package main

import (
	"bytes"
	"context"
	"fmt"
	"os"
	"os/exec"
	"path/filepath"
	"strings"
	"sync"
	"time"
)

type solverSpec struct {
	name string
	cmd  func(file string, timeoutS int) []string
}

var solvers = []solverSpec{
	{"z3-5.1.0", func(f string, t int) []string { return []string{"z3-new", fmt.Sprintf("-T:%d", t), f} }},
	{"z3-4.8.12", func(f string, t int) []string { return []string{"z3", fmt.Sprintf("-T:%d", t), f} }},
	{"cvc5-1.0", func(f string, t int) []string {
		return []string{"cvc5", "--lang=smt2", fmt.Sprintf("--tlimit=%d", t*1000), f}
	}},
}

func (o *Obligation) script(withModel bool) string {
	var b bytes.Buffer
	b.WriteString("(set-option :produce-models true)\n(set-logic ALL)\n")
	for _, l := range o.vc.lines[:o.prefix] {
		b.WriteString(l)
		b.WriteByte('\n')
	}
	fmt.Fprintf(&b, "; obligation %s\n(assert %s)\n(check-sat)\n", o.Name, o.goal)
	if withModel {
		if len(o.vc.inputs) > 0 {
			b.WriteString("(get-value (")
			for _, in := range o.vc.inputs {
				b.WriteString(in[1])
				b.WriteByte(' ')
			}
			b.WriteString("))\n")
		}
		b.WriteString("(get-model)\n")
	}
	return b.String()
}

func runSolver(s solverSpec, file string, timeoutS int) (status, out string, dur float64) {
	args := s.cmd(file, timeoutS)
	ctx, cancel := context.WithTimeout(context.Background(), time.Duration(timeoutS+2)*time.Second)
	defer cancel()
	cmd := exec.CommandContext(ctx, args[0], args[1:]...)
	var buf bytes.Buffer
	cmd.Stdout = &buf
	cmd.Stderr = &buf
	t0 := time.Now()
	_ = cmd.Run()
	dur = time.Since(t0).Seconds()
	out = buf.String()
	first := ""
	for _, ln := range strings.Split(out, "\n") {
		ln = strings.TrimSpace(ln)
		if ln == "" || strings.HasPrefix(ln, "WARNING") {
			continue
		}
		first = ln
		break
	}
	switch first {
	case "unsat", "sat", "unknown":
		status = first
	case "timeout":
		status = "timeout"
	default:
		if ctx.Err() != nil {
			status = "timeout"
		} else if strings.Contains(out, "timeout") || strings.Contains(out, "interrupted") {
			status = "timeout"
		} else {
			status = "error"
		}
	}
	return
}

// solveAll discharges obligations in parallel.
func solveAll(obls []*Obligation, scratch string, timeoutS int, workers int, cross bool) {
	var wg sync.WaitGroup
	ch := make(chan *Obligation)
	for w := 0; w < workers; w++ {
		wg.Add(1)
		go func() {
			defer wg.Done()
			for o := range ch {
				solveOne(o, scratch, timeoutS, cross)
			}
		}()
	}
	for _, o := range obls {
		ch <- o
	}
	close(ch)
	wg.Wait()
}

var fileSeq int
var fileMu sync.Mutex

func solveOne(o *Obligation, scratch string, timeoutS int, cross bool) {
	if o.Kind == "effect" {
		// decided by the frame / effect analysis; no SMT query
		o.Solver = solverEffects
		if o.goal == "false" {
			o.Status = "discharged"
		} else {
			o.Status = "refuted"
		}
		return
	}
	fileMu.Lock()
	fileSeq++
	n := fileSeq
	fileMu.Unlock()
	file := filepath.Join(scratch, fmt.Sprintf("o%05d.smt2", n))
	os.WriteFile(file, []byte(o.script(true)), 0o644)
	o.SMTFile = file
	total := 0.0
	var outputs []string
	o.Status = "unknown"
	for si, s := range solvers {
		if o.Expect == "sat" && si > 0 {
			o.Status, o.Solver = "discharged", "none (no solver found the path condition contradictory)"
			break
		}
		if o.Sweep && si > 0 {
			break // sweeps: primary solver only
		}
		t := timeoutS
		if o.Sweep && t > 4 {
			t = 4
		}
		if o.Quick {
			if si > 0 {
				break
			}
			if t > 3 {
				t = 3
			}
		}
		if o.Expect == "canary" {
			// a canary only has to fail: one solver, short timeout
			if si > 0 {
				break
			}
			if t > 2 {
				t = 2
			}
		}
		if o.Expect == "sat" {
			// cover queries: only a definite `unsat` matters
			if si > 0 {
				o.Status, o.Solver = "discharged", "none (no solver found the path condition contradictory)"
				break
			}
			if t > 1 {
				t = 1
			}
		}
		status, out, dur := runSolver(s, file, t)
		total += dur
		outputs = append(outputs, fmt.Sprintf("[%s %.2fs] %s", s.name, dur, firstLines(out, 3)))
		if o.Expect == "sat" {
			// cover obligation: fails only if the preconditions are contradictory
			if status == "sat" {
				o.Status, o.Solver = "discharged", s.name
				break
			}
			if status == "unsat" {
				o.Status, o.Solver = "refuted", s.name
				o.Output = "preconditions are contradictory (vacuous contract)"
				break
			}
			if si == len(solvers)-1 {
				o.Status, o.Solver = "discharged", "none (no solver found the preconditions contradictory)"
			}
			continue
		}
		if status == "unsat" {
			o.Status, o.Solver = "discharged", s.name
			break
		}
		if status == "sat" {
			o.Status, o.Solver = "refuted", s.name
			o.Model = trimModel(out)
			parseValues(o, out)
			break
		}
	}
	if o.Status == "unknown" && o.Expect != "sat" && o.Expect != "canary" {
		// model finding: drop the quantified background axioms; a model of the
		// relaxed query is only a candidate (it is replayed on the real code)
		var b strings.Builder
		for _, ln := range strings.Split(o.script(true), "\n") {
			if strings.HasPrefix(ln, "(assert (forall") || strings.HasPrefix(ln, "(assert (=> pc") && strings.Contains(ln, "(forall") {
				continue
			}
			b.WriteString(ln)
			b.WriteByte('\n')
		}
		rf := file + ".relaxed.smt2"
		os.WriteFile(rf, []byte(b.String()), 0o644)
		status, out, dur := runSolver(solvers[0], rf, 5)
		total += dur
		if status == "sat" {
			o.Model = "; candidate model (quantified background axioms dropped)\n" + trimModel(out)
			parseValues(o, out)
		}
	}
	o.TimeS = total
	if o.Status != "discharged" {
		o.Output = strings.Join(outputs, "\n")
		nerr := 0
		for _, s := range outputs {
			if strings.Contains(s, "(error") {
				nerr++
			}
		}
		if nerr == len(outputs) && o.Status == "unknown" {
			o.Status = "smt-error"
		}
	}
	if cross && o.Status == "discharged" && o.Expect != "sat" {
		// thorough tier: no other solver may answer sat
		for _, s := range solvers {
			if s.name == o.Solver {
				continue
			}
			status, out, dur := runSolver(s, file, min(timeoutS, 20))
			o.TimeS += dur
			if status == "sat" {
				o.Status = "refuted"
				o.Solver = s.name + " (cross-check disagrees)"
				o.Model = trimModel(out)
			}
		}
	}
}

// parseValues extracts the (get-value ...) answer: one value per input, in order.
func parseValues(o *Obligation, out string) {
	i := strings.Index(out, "((")
	if i < 0 || len(o.vc.inputs) == 0 {
		return
	}
	// split the top-level list into (term value) pairs
	depth := 0
	start := -1
	var pairs []string
	for k := i; k < len(out); k++ {
		switch out[k] {
		case '(':
			depth++
			if depth == 2 {
				start = k
			}
		case ')':
			if depth == 2 && start >= 0 {
				pairs = append(pairs, out[start:k+1])
				start = -1
			}
			depth--
			if depth == 0 {
				k = len(out)
			}
		}
	}
	if len(pairs) != len(o.vc.inputs) {
		return
	}
	o.Values = map[string]string{}
	for n, p := range pairs {
		term := o.vc.inputs[n][1]
		body := strings.TrimSpace(p[1 : len(p)-1])
		val := strings.TrimSpace(strings.TrimPrefix(body, term))
		if !strings.HasPrefix(body, term) {
			// the solver may print the term differently: take the last s-expression / token
			if j := lastSexpr(body); j >= 0 {
				val = body[j:]
			}
		}
		o.Values[o.vc.inputs[n][0]] = strings.Join(strings.Fields(val), " ")
	}
}

func lastSexpr(s string) int {
	s = strings.TrimSpace(s)
	if s == "" {
		return -1
	}
	if s[len(s)-1] != ')' {
		return strings.LastIndexAny(s, " \n\t") + 1
	}
	d := 0
	for k := len(s) - 1; k >= 0; k-- {
		switch s[k] {
		case ')':
			d++
		case '(':
			d--
			if d == 0 {
				return k
			}
		}
	}
	return -1
}

func firstLines(s string, n int) string {
	ls := strings.Split(strings.TrimSpace(s), "\n")
	if len(ls) > n {
		ls = ls[:n]
	}
	return strings.Join(ls, " | ")
}

func trimModel(out string) string {
	if len(out) > 20000 {
		out = out[:20000] + "\n... (truncated)"
	}
	return out
}
