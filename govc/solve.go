package main

import (
	"bytes"
	"context"
	"fmt"
	"os"
	"os/exec"
	"path/filepath"
	"strings"
	"sync"
	"time"
)

type solverSpec struct {
	name string
	cmd  func(file string, timeoutS int) []string
}

var solvers = []solverSpec{
	{"z3-5.1.0", func(f string, t int) []string { return []string{"z3-new", fmt.Sprintf("-T:%d", t), f} }},
	{"z3-4.8.12", func(f string, t int) []string { return []string{"z3", fmt.Sprintf("-T:%d", t), f} }},
	{"cvc5-1.0", func(f string, t int) []string {
		return []string{"cvc5", "--lang=smt2", fmt.Sprintf("--tlimit=%d", t*1000), f}
	}},
}

func (o *Obligation) script(withModel bool) string {
	var b bytes.Buffer
	b.WriteString("(set-option :produce-models true)\n(set-logic ALL)\n")
	for _, l := range o.vc.lines[:o.prefix] {
		b.WriteString(l)
		b.WriteByte('\n')
	}
	fmt.Fprintf(&b, "; obligation %s\n(assert %s)\n(check-sat)\n", o.Name, o.goal)
	if withModel {
		b.WriteString("(get-model)\n")
	}
	return b.String()
}

func runSolver(s solverSpec, file string, timeoutS int) (status, out string, dur float64) {
	args := s.cmd(file, timeoutS)
	ctx, cancel := context.WithTimeout(context.Background(), time.Duration(timeoutS+2)*time.Second)
	defer cancel()
	cmd := exec.CommandContext(ctx, args[0], args[1:]...)
	var buf bytes.Buffer
	cmd.Stdout = &buf
	cmd.Stderr = &buf
	t0 := time.Now()
	_ = cmd.Run()
	dur = time.Since(t0).Seconds()
	out = buf.String()
	first := ""
	for _, ln := range strings.Split(out, "\n") {
		ln = strings.TrimSpace(ln)
		if ln == "" || strings.HasPrefix(ln, "WARNING") {
			continue
		}
		first = ln
		break
	}
	switch first {
	case "unsat", "sat", "unknown":
		status = first
	case "timeout":
		status = "timeout"
	default:
		if ctx.Err() != nil {
			status = "timeout"
		} else if strings.Contains(out, "timeout") || strings.Contains(out, "interrupted") {
			status = "timeout"
		} else {
			status = "error"
		}
	}
	return
}

// solveAll discharges obligations in parallel.
func solveAll(obls []*Obligation, scratch string, timeoutS int, workers int, cross bool) {
	var wg sync.WaitGroup
	ch := make(chan *Obligation)
	for w := 0; w < workers; w++ {
		wg.Add(1)
		go func() {
			defer wg.Done()
			for o := range ch {
				solveOne(o, scratch, timeoutS, cross)
			}
		}()
	}
	for _, o := range obls {
		ch <- o
	}
	close(ch)
	wg.Wait()
}

var fileSeq int
var fileMu sync.Mutex

func solveOne(o *Obligation, scratch string, timeoutS int, cross bool) {
	fileMu.Lock()
	fileSeq++
	n := fileSeq
	fileMu.Unlock()
	file := filepath.Join(scratch, fmt.Sprintf("o%05d.smt2", n))
	os.WriteFile(file, []byte(o.script(true)), 0o644)
	o.SMTFile = file
	total := 0.0
	var outputs []string
	o.Status = "unknown"
	for si, s := range solvers {
		if o.Sweep && si > 0 {
			break // sweeps: primary solver only
		}
		t := timeoutS
		if o.Sweep && t > 4 {
			t = 4
		}
		if si == 0 && timeoutS > 4 {
			t = timeoutS // primary solver gets the full budget
		}
		status, out, dur := runSolver(s, file, t)
		total += dur
		outputs = append(outputs, fmt.Sprintf("[%s %.2fs] %s", s.name, dur, firstLines(out, 3)))
		if o.Expect == "sat" {
			// cover obligation: fails only if the preconditions are contradictory
			if status == "sat" {
				o.Status, o.Solver = "discharged", s.name
				break
			}
			if status == "unsat" {
				o.Status, o.Solver = "refuted", s.name
				o.Output = "preconditions are contradictory (vacuous contract)"
				break
			}
			if si == len(solvers)-1 {
				o.Status, o.Solver = "discharged", "none (no solver found the preconditions contradictory)"
			}
			continue
		}
		if status == "unsat" {
			o.Status, o.Solver = "discharged", s.name
			break
		}
		if status == "sat" {
			o.Status, o.Solver = "refuted", s.name
			o.Model = trimModel(out)
			break
		}
	}
	o.TimeS = total
	if o.Status != "discharged" {
		o.Output = strings.Join(outputs, "\n")
		nerr := 0
		for _, s := range outputs {
			if strings.Contains(s, "(error") {
				nerr++
			}
		}
		if nerr == len(outputs) && o.Status == "unknown" {
			o.Status = "smt-error"
		}
	}
	if cross && o.Status == "discharged" && o.Expect != "sat" {
		// thorough tier: no other solver may answer sat
		for _, s := range solvers {
			if s.name == o.Solver {
				continue
			}
			status, out, dur := runSolver(s, file, min(timeoutS, 20))
			o.TimeS += dur
			if status == "sat" {
				o.Status = "refuted"
				o.Solver = s.name + " (cross-check disagrees)"
				o.Model = trimModel(out)
			}
		}
	}
}

func firstLines(s string, n int) string {
	ls := strings.Split(strings.TrimSpace(s), "\n")
	if len(ls) > n {
		ls = ls[:n]
	}
	return strings.Join(ls, " | ")
}

func trimModel(out string) string {
	if len(out) > 20000 {
		out = out[:20000] + "\n... (truncated)"
	}
	return out
}
