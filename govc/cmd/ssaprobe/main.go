package main

import (
	"fmt"
	"os"
	"strings"

	"golang.org/x/tools/go/packages"
	"golang.org/x/tools/go/ssa"
	"golang.org/x/tools/go/ssa/ssautil"
)

func main() {
	dir := os.Args[1]
	pat := os.Args[2]
	names := os.Args[3:]
	cfg := &packages.Config{Mode: packages.LoadAllSyntax, Dir: dir, BuildFlags: []string{"-tags=verif"}}
	pkgs, err := packages.Load(cfg, pat)
	if err != nil {
		panic(err)
	}
	prog, spkgs := ssautil.AllPackages(pkgs, ssa.NaiveForm|ssa.GlobalDebug|ssa.InstantiateGenerics)
	prog.Build()
	for _, sp := range spkgs {
		if sp == nil {
			continue
		}
		for fn := range ssautil.AllFunctions(prog) {
			if fn.Pkg != sp {
				continue
			}
			for _, n := range names {
				if strings.Contains(fn.String(), n) {
					fn.WriteTo(os.Stdout)
					fmt.Println()
				}
			}
		}
	}
}
