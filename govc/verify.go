package main

import (
	"fmt"
	"os"
	"go/types"
	"strings"

	"golang.org/x/tools/go/ssa"
)

type Unit struct {
	Name     string
	Fn       *ssa.Function
	Ct       *FuncContract
	VC       *VC
	Err      string
	Props    []string
	Impl     string // for iface implementation obligations
}

// verifyUnit generates all obligations of one function under contract.
func (e *Engine) verifyUnit(fn *ssa.Function, ct *FuncContract, alias []string, unitSuffix string) (u *Unit) {
	u = &Unit{Fn: fn, Ct: ct, Props: ct.Props}
	u.Name = e.unitName(fn) + unitSuffix
	vc := newVC(e, u.Name)
	u.VC = vc
	defer func() {
		if r := recover(); r != nil {
			if ee, ok := r.(engineError); ok {
				u.Err = ee.msg
				return
			}
			panic(r)
		}
	}()
	x := &Exec{vc: vc, eng: e}
	fr := x.newFrame(fn, ct, true, 0)
	x.top = fr
	fr.unit = u.Name
	fr.paramAlias = alias
	nEpoch++
	st := &State{pc: "true", cells: map[*ssa.Alloc]string{}, heap: map[string]string{}, globals: map[*ssa.Global]string{}, ghost: map[string]string{}, epoch: nEpoch}
	st.alloc = vc.freshConst("alloc0", "Int")
	vc.emit(fmt.Sprintf("(assert (> %s 0))", st.alloc))
	var args, bind []Val
	for _, p := range fn.Params {
		args = append(args, x.freshTyped(st, "p_"+p.Name(), p.Type()))
	}
	// symbolic inputs whose model values are reported with a counterexample
	for i, p := range fn.Params {
		if args[i].Tup != nil || p.Name() == "" {
			continue
		}
		x.recordInputs(st, p.Name(), args[i].T, p.Type(), 2)
	}
	for _, fv := range fn.FreeVars {
		v := x.freshTyped(st, "fv_"+fv.Name(), fv.Type())
		vc.assume("true", fmt.Sprintf("(> %s 0)", v.T))
		for _, o := range bind {
			vc.assume("true", fmt.Sprintf("(not (= %s %s))", v.T, o.T))
		}
		bind = append(bind, v)
	}
	for _, g := range ct.Ghost {
		sp := e.synth(ct.PkgPath)
		sig := e.checkSig(sp, "func(x "+g.Type+") bool", ct.Src)
		gt := sig.Params().At(0).Type()
		fr.ghostLoc[g.Name] = vc.sortOf(gt)
		vc.ghostLocalSorts["local:"+g.Name] = vc.sortOf(gt)
		fr.ghostTyp[g.Name] = gt
	}
	fr.onEntry = func(st *State) {
		for _, g := range ct.Ghost {
			if g.Init != "" {
				ctx := x.ownCtx(fr, st, false)
				ctx.src = ct.Src
				t, _ := ctx.evalText(g.Init)
				st.ghost["local:"+g.Name] = t
			} else {
				st.ghost["local:"+g.Name] = vc.freshConst("ghost_"+g.Name, fr.ghostLoc[g.Name])
				vc.assumeTyped(st, st.ghost["local:"+g.Name], fr.ghostTyp[g.Name])
			}
		}
		fr.entry = st.clone()
		x.assumeGlobalInvs(fr, st)
		for _, r := range ct.Requires {
			ctx := x.ownCtx(fr, st, false)
			ctx.src = r.Src
			t, _ := ctx.evalText(r.Text)
			vc.assume("true", t)
		}
		// vacuity: the preconditions (and type facts) are satisfiable
		o := vc.oblige(u.Name+"/cover:requires", "cover", u.Name, ct.Src, "preconditions are satisfiable", "true", "false")
		o.Expect = "sat"
		// undo the assert-then-assume of `false`
		vc.lines = vc.lines[:len(vc.lines)-1]
	}
	if os.Getenv("GOVC_SITES") != "" {
		fr.dumpSites(x)
	}
	x.run(fr, st, args, bind)

	// vacuity: some exit of the function is reachable under the facts assumed
	// along the way (an inconsistent assumption would "prove" everything)
	{
		var pcs []string
		for _, r := range fr.rets {
			pcs = append(pcs, r.st.pc)
		}
		for _, ps := range fr.panics {
			pcs = append(pcs, ps.pc)
		}
		if len(pcs) > 0 {
			o := vc.oblige(u.Name+"/cover:exit", "cover", u.Name, ct.Src, "some exit of the function is reachable (assumptions are consistent)", "(or "+strings.Join(pcs, " ")+")", "false")
			o.Expect = "sat"
			vc.lines = vc.lines[:len(vc.lines)-1]
		}
	}
	// postconditions at every return
	sig := fn.Signature
	rn, rtys := resultNames(sig)
	if len(fr.rets) > 6 {
		// many return points: check the postconditions once on the merged state
		var ins []edgeState
		for _, r := range fr.rets {
			ins = append(ins, edgeState{st: r.st})
		}
		m := vc.merge(ins, "allrets", x.cellType)
		var outs []Val
		for k := range rtys {
			t := fr.rets[len(fr.rets)-1].results[k].T
			for i := len(fr.rets) - 2; i >= 0; i-- {
				if fr.rets[i].results[k].T != t {
					t = fmt.Sprintf("(ite %s %s %s)", fr.rets[i].st.pc, fr.rets[i].results[k].T, t)
				}
			}
			outs = append(outs, Val{T: vc.freshDef("result", vc.sortOf(rtys[k]), t)})
		}
		fr.rets = []retInfo{{st: m, results: outs, pos: fr.rets[0].pos}}
	}
	for ri, ret := range fr.rets {
		ctx := x.ownCtx(fr, ret.st, false)
		ctx.resultAlloc = fr.entry.alloc
		for i, n := range rn {
			ctx.vars[n] = &binding{val: ret.results[i], typ: rtys[i]}
			ctx.order = append(ctx.order, scopeVar{n, rtys[i]})
			if nr := sig.Results().At(i).Name(); nr != "" && nr != "_" {
				if _, dup := ctx.vars[nr]; !dup {
					ctx.order = append(ctx.order, scopeVar{nr, rtys[i]})
				}
				ctx.vars[nr] = &binding{val: ret.results[i], typ: rtys[i]}
			}
		}
		suffix := ""
		if len(fr.rets) > 1 {
			suffix = fmt.Sprintf("@ret%d", ri)
		}
		for k, en := range ct.Ensures {
			ctx.src = en.Src
			t, _ := ctx.evalText(en.Text)
			vc.oblige(fmt.Sprintf("%s/post:%s%s", u.Name, clauseID(en, k), suffix), "post", u.Name, x.pos(ret.pos), en.Text, ret.st.pc, t)
		}
		if ct.Fresh && len(ret.results) > 0 {
			a := ret.results[0].T
			if _, isSl := rtys[0].Underlying().(*types.Slice); isSl {
				a = fmt.Sprintf("(s-arr %s)", a)
			}
			vc.oblige(fmt.Sprintf("%s/post:fresh%s", u.Name, suffix), "post", u.Name, x.pos(ret.pos), "result is freshly allocated", ret.st.pc, fmt.Sprintf("(>= %s %s)", a, fr.entry.alloc))
		}
		if ct.Panics != nil {
			pc := x.ownCtx(fr, fr.entry, false)
			pc.src = ct.Panics.Src
			t, _ := pc.evalText(ct.Panics.Text)
			vc.oblige(fmt.Sprintf("%s/returns-only-if-not:panics%s", u.Name, suffix), "post", u.Name, x.pos(ret.pos), "returns normally only when !("+ct.Panics.Text+")", ret.st.pc, "(not "+t+")")
		}
		if ct.HasMod && !ct.ModAll {
			x.frameObligations(fr, ret.st, u.Name, suffix)
		}
	}
	if len(fr.defers) > 0 && len(ct.PanicEns) > 0 {
		// deferred calls also run while a panic unwinds
		for k := range fr.panics {
			ps := fr.panics[k].clone()
			x.runDefers(fr, ps)
			fr.panics[k] = ps
		}
	}
	for k, ps := range fr.panics {
		ctx := x.ownCtx(fr, ps, false)
		for j, en := range ct.PanicEns {
			ctx.src = en.Src
			t, _ := ctx.evalText(en.Text)
			vc.oblige(fmt.Sprintf("%s/panic-post:%s@panic%d", u.Name, clauseID(en, j), k), "post", u.Name, en.Src, "on panic: "+en.Text, ps.pc, t)
		}
	}
	if ct.Panics != nil {
		for k, ps := range fr.panics {
			pc := x.ownCtx(fr, fr.entry, false)
			pc.src = ct.Panics.Src
			t, _ := pc.evalText(ct.Panics.Text)
			vc.oblige(fmt.Sprintf("%s/panics-only-if#%d", u.Name, k), "post", u.Name, ct.Panics.Src, "panics only when "+ct.Panics.Text, ps.pc, t)
			if ct.HasMod && !ct.ModAll {
				x.frameObligations(fr, ps, u.Name, fmt.Sprintf("@panic%d", k))
			}
		}
	}
	for k, at := range ct.Ats {
		if !fr.atUsed()[k] && !strings.HasSuffix(at.Site, "#*") {
			e.fatalf("%s: site %q does not occur in %s", at.Clause.Src, at.Site, u.Name)
		}
	}
	for n := range ct.Loops {
		found := false
		for _, li := range fr.loops {
			if li.ordinal == n {
				found = true
			}
		}
		if !found {
			e.fatalf("%s: loop %d does not exist in %s", ct.Src, n, u.Name)
		}
	}
	return u
}

// recordInputs lists scalar components of a parameter (and of the struct it
// points to) so that their model values can be extracted.
func (x *Exec) recordInputs(st *State, label, term string, t types.Type, depth int) {
	vc := x.vc
	if len(vc.inputs) > 60 {
		return
	}
	switch u := t.Underlying().(type) {
	case *types.Basic:
		vc.inputs = append(vc.inputs, [2]string{label, term})
	case *types.Interface, *types.Chan, *types.Map, *types.Signature:
		vc.inputs = append(vc.inputs, [2]string{label, term})
	case *types.Slice:
		vc.inputs = append(vc.inputs, [2]string{label + ".len", fmt.Sprintf("(s-len %s)", term)})
		vc.inputs = append(vc.inputs, [2]string{label + ".cap", fmt.Sprintf("(s-cap %s)", term)})
	case *types.Pointer:
		vc.inputs = append(vc.inputs, [2]string{label, term})
		if depth > 0 {
			if _, isStruct := u.Elem().Underlying().(*types.Struct); isStruct {
				k := vc.heapKey("H", u.Elem())
				x.recordInputs(st, "*"+label, fmt.Sprintf("(select %s %s)", vc.heapGet(st, k), term), u.Elem(), depth-1)
			}
		}
	case *types.Struct:
		for i := 0; i < u.NumFields(); i++ {
			x.recordInputs(st, label+"."+u.Field(i).Name(), vc.fieldSel(t, i, term), u.Field(i).Type(), depth-1)
		}
	}
}

type frameAllow struct {
	objs   []string
	fields map[string][][]sel
	ptrs   []string
}

type frameSpec struct {
	allowed map[string]*frameAllow
	mapOK   map[string]bool
	allKeys map[string]bool
	external bool
}

// frameSpecOf evaluates the modifies clause of the function under
// verification in its entry state.
func (x *Exec) frameSpecOf(fr *Frame) *frameSpec {
	if fr.fspec != nil {
		return fr.fspec
	}
	vc := x.vc
	ct := fr.ct
	ent := fr.entry
	fs := &frameSpec{allowed: map[string]*frameAllow{}, mapOK: map[string]bool{}, allKeys: map[string]bool{}}
	get := func(k string) *frameAllow {
		a := fs.allowed[k]
		if a == nil {
			a = &frameAllow{fields: map[string][][]sel{}}
			fs.allowed[k] = a
		}
		return a
	}
	ctx := x.ownCtx(fr, ent, false)
	ctx.src = ct.Src
	for _, m := range ct.Modifies {
		m = strings.TrimSpace(m)
		if m == "external" {
			fs.external = true
			continue
		}
		if i := strings.Index(m, "("); i > 0 && strings.HasSuffix(m, ")") {
			name := strings.TrimSpace(m[:i])
			if g, srt, ok := x.eng.gfieldLookup(ct.PkgPath, name); ok {
				name = g.Name
				if strings.TrimSpace(m[i+1:len(m)-1]) == "*" {
					fs.allKeys[vc.ghostHeapKey(name, x.eng.ghostArrSort(vc, name))] = true
					continue
				}
				obj, ot := ctx.evalText(m[i+1 : len(m)-1])
				// a ghost field *defined* on this concrete type stands for the object itself
				if pointee(ot) != nil {
					isDef := false
					for _, d := range g.Defs {
						if types.Identical(d.sig.Params().At(0).Type(), ot) {
							isDef = true
						}
					}
					if isDef {
						k := vc.heapKey("H", pointee(ot))
						get(k).objs = append(get(k).objs, obj)
						continue
					}
				}
				_ = srt
				k := vc.ghostHeapKey(name, x.eng.ghostArrSort(vc, name))
				get(k).objs = append(get(k).objs, obj)
				continue
			}
		}
		if strings.HasPrefix(m, "ghost ") {
			continue
		}
		lv := ctx.lvalue(m)
		switch lv.kind {
		case "field":
			a := get(lv.key)
			if _, ok := a.fields[lv.ptr]; !ok {
				a.ptrs = append(a.ptrs, lv.ptr)
			}
			a.fields[lv.ptr] = append(a.fields[lv.ptr], lv.path)
		case "object", "elems":
			get(lv.key).objs = append(get(lv.key).objs, lv.ptr)
		case "map":
			fs.mapOK[typeKey(lv.typ)] = true
		case "heapkey":
			fs.allKeys[lv.key] = true
		}
	}
	fr.fspec = fs
	return fs
}

// frameGoal: every object of heap k that existed at entry and is not named
// in the modifies clause has its entry value in state cur.  "" = no obligation.
func (x *Exec) frameGoal(fr *Frame, k string, cur *State) string {
	vc := x.vc
	fs := x.frameSpecOf(fr)
	ent := fr.entry
	curT := vc.heapGet(cur, k)
	old := vc.heapGet(ent, k)
	if curT == old || fs.allKeys[k] || (fs.external && isExternalKey(k)) {
		return ""
	}
	if strings.HasPrefix(k, "M") {
		tk := k[strings.Index(k, "|")+1:]
		if fs.mapOK[tk] {
			return ""
		}
	}
	a := fs.allowed[k]
	q := vc.fresh("p")
	var excl []string
	qsort := "Int"
	if strings.HasPrefix(k, "G|") {
		if fsrt := strings.Fields(strings.TrimPrefix(vc.heapSorts[k], "(Array ")); len(fsrt) > 0 && fsrt[0] != "Int" && !strings.HasPrefix(fsrt[0], "(") {
			qsort = fsrt[0]
		}
	}
	if qsort == "Int" {
		excl = append(excl, fmt.Sprintf("(< 0 %s)", q), fmt.Sprintf("(< %s %s)", q, ent.alloc))
	} else {
		excl = append(excl, "true")
	}
	if a != nil {
		for _, o := range a.objs {
			excl = append(excl, fmt.Sprintf("(not (= %s %s))", q, o))
		}
		for _, p := range a.ptrs {
			excl = append(excl, fmt.Sprintf("(not (= %s %s))", q, p))
		}
	}
	goal := fmt.Sprintf("(forall ((%s %s)) (! (=> (and %s) (= (select %s %s) (select %s %s))) :pattern ((select %s %s))))", q, qsort, strings.Join(excl, " "), curT, q, old, q, curT, q)
	if a != nil {
		for _, p := range a.ptrs {
			obj := fmt.Sprintf("(select %s %s)", curT, p)
			oobj := fmt.Sprintf("(select %s %s)", old, p)
			for _, path := range a.fields[p] {
				obj = x.updatePath(obj, path, x.applyPath(oobj, path))
			}
			goal = fmt.Sprintf("(and %s (= %s %s))", goal, obj, oobj)
		}
	}
	return goal
}

// frameObligations: nothing outside the modifies clause changed.
func (x *Exec) frameObligations(fr *Frame, fin *State, unit, suffix string) {
	vc := x.vc
	ct := fr.ct
	ent := fr.entry
	if fin.ext != ent.ext && !x.frameSpecOf(fr).external {
		vc.oblige(fmt.Sprintf("%s/frame:external%s", unit, suffix), "frame", unit, ct.Src, "a call may modify dependency-typed memory outside the modifies clause", fin.pc, "false")
	}
	if fin.epoch != ent.epoch {
		vc.oblige(fmt.Sprintf("%s/frame:havoc%s", unit, suffix), "frame", unit, ct.Src, "an uncontracted call may modify memory outside the modifies clause", fin.pc, "false")
		return
	}
	for _, k := range sortedKeys(fin.heap) {
		goal := x.frameGoal(fr, k, fin)
		if goal == "" {
			continue
		}
		vc.oblige(fmt.Sprintf("%s/frame:%s%s", unit, vc.heapNames[k], suffix), "frame", unit, ct.Src, "only locations in the modifies clause change ("+strings.SplitN(k, "|", 2)[1]+")", fin.pc, goal)
	}
	for g, cur := range fin.globals {
		old := vc.globalGet(ent, g)
		if cur != old {
			vc.oblige(fmt.Sprintf("%s/frame:global.%s%s", unit, g.Name(), suffix), "frame", unit, ct.Src, "package-level variable unchanged", fin.pc, fmt.Sprintf("(= %s %s)", cur, old))
		}
	}
}
