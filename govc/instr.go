package main

import (
	"fmt"
	"go/token"
	"go/types"
	"strings"

	"golang.org/x/tools/go/ssa"
)

func (x *Exec) instr(fr *Frame, st *State, in ssa.Instruction) {
	vc := x.vc
	fr.curInstr = in
	switch i := in.(type) {
	case *ssa.DebugRef:
		return
	case *ssa.Alloc:
		et := pointee(i.Type())
		if isArrayT(et) {
			at := et.Underlying().(*types.Array)
			id := x.allocID(st)
			k := vc.heapKey("E", at.Elem())
			st.heap[k] = vc.define("h", vc.heapSorts[k], fmt.Sprintf("(store %s %s %s)", vc.heapGet(st, k), id, vc.zeroOf(et)))
			fr.regs[i] = Val{T: id, ArrBlock: true}
			return
		}
		if i.Heap {
			id := x.allocID(st)
			k := vc.heapKey("H", et)
			st.heap[k] = vc.define("h", vc.heapSorts[k], fmt.Sprintf("(store %s %s %s)", vc.heapGet(st, k), id, vc.zeroOf(et)))
			fr.regs[i] = Val{Loc: &Loc{kind: lHeap, key: k, ptr: id, rootT: et, typ: et}}
			if addrPrivate(i) {
				x.priv = append(x.priv, privCell{key: k, ptr: id, alloc: i, fr: fr})
			}
			return
		}
		st.cells[i] = vc.zeroOf(et)
		fr.regs[i] = Val{Loc: &Loc{kind: lCell, cell: i, rootT: et, typ: et}}
	case *ssa.Store:
		l := x.locOf(fr, st, i.Addr, i.Pos())
		v := x.value(fr, st, i.Val)
		x.store(fr, st, l, x.term(fr, st, v))
		if v.Clo != nil && l.kind == lCell {
			fr.cloCells()[l.cell] = v.Clo
			if fr.cloFrs == nil {
				fr.cloFrs = map[*ssa.Alloc]*Frame{}
			}
			fr.cloFrs[l.cell] = v.CloFr
		}
	case *ssa.UnOp:
		x.unop(fr, st, i)
	case *ssa.BinOp:
		a := x.term(fr, st, x.value(fr, st, i.X))
		b := x.term(fr, st, x.value(fr, st, i.Y))
		fr.regs[i] = Val{T: x.binop(fr, st, i.Op, a, b, i.X.Type(), i.Y.Type(), i.Type(), i.Pos())}
	case *ssa.FieldAddr:
		xv := x.value(fr, st, i.X)
		st0 := pointee(i.X.Type())
		ft := structOf(st0).Field(i.Field).Type()
		if xv.Loc != nil {
			fr.regs[i] = Val{Loc: xv.Loc.extend(sel{field: i.Field, structT: st0}, ft)}
			return
		}
		x.nilCheck(fr, st, xv.T, i.Pos(), "field access through "+i.X.Name())
		base := &Loc{kind: lHeap, key: vc.heapKey("H", st0), ptr: xv.T, rootT: st0, typ: st0}
		fr.regs[i] = Val{Loc: base.extend(sel{field: i.Field, structT: st0}, ft)}
	case *ssa.Field:
		xv := x.term(fr, st, x.value(fr, st, i.X))
		fr.regs[i] = Val{T: vc.fieldSel(i.X.Type(), i.Field, xv)}
	case *ssa.IndexAddr:
		x.indexAddr(fr, st, i)
	case *ssa.Index:
		xv := x.term(fr, st, x.value(fr, st, i.X))
		iv := x.term(fr, st, x.value(fr, st, i.Index))
		switch xt := i.X.Type().Underlying().(type) {
		case *types.Array:
			x.boundsCheck(fr, st, iv, fmt.Sprint(xt.Len()), i.Pos(), "array index")
			fr.regs[i] = Val{T: fmt.Sprintf("(select %s %s)", xv, iv)}
		default:
			// string index
			x.boundsCheck(fr, st, iv, fmt.Sprintf("(strlen %s)", xv), i.Pos(), "string index")
			vc.uf("str_at", []string{"Int", "Int"}, "Int")
			t := fmt.Sprintf("(str_at %s %s)", xv, iv)
			vc.assume(st.pc, fmt.Sprintf("(and (<= 0 %s) (<= %s 255))", t, t))
			fr.regs[i] = Val{T: t}
		}
	case *ssa.Slice:
		x.sliceOp(fr, st, i)
	case *ssa.Phi:
		if _, ok := fr.regs[i]; !ok {
			x.eng.fatalf("%s: phi not initialised", fr.fn)
		}
	case *ssa.Extract:
		tv := x.value(fr, st, i.Tuple)
		fr.regs[i] = tv.Tup[i.Index]
	case *ssa.Convert:
		xv := x.value(fr, st, i.X)
		fr.regs[i] = Val{T: x.convert(fr, st, x.term(fr, st, xv), i.X.Type(), i.Type())}
	case *ssa.ChangeType:
		fr.regs[i] = x.value(fr, st, i.X)
	case *ssa.ChangeInterface:
		fr.regs[i] = x.value(fr, st, i.X)
	case *ssa.MakeInterface:
		xv := x.value(fr, st, i.X)
		fr.regs[i] = Val{T: x.box(st, x.term(fr, st, xv), i.X.Type())}
	case *ssa.TypeAssert:
		x.typeAssert(fr, st, i)
	case *ssa.MakeClosure:
		id := x.allocID(st)
		fr.regs[i] = Val{T: id, Clo: i, CloFr: fr}
	case *ssa.MakeSlice:
		l := x.term(fr, st, x.value(fr, st, i.Len))
		c := x.term(fr, st, x.value(fr, st, i.Cap))
		g := fmt.Sprintf("(and (<= 0 %s) (<= %s %s))", l, l, c)
		if fr.nopanic {
			vc.oblige(fmt.Sprintf("%s/makeslice%s", fr.unit, x.ordTag(fr, "makeslice", i.Pos())), "slice", fr.unit, x.pos(i.Pos()), "make: len in range", st.pc, g)
		} else {
			vc.assume(st.pc, g)
		}
		et := i.Type().Underlying().(*types.Slice).Elem()
		id := x.allocID(st)
		k := vc.heapKey("E", et)
		zero := fmt.Sprintf("((as const (Array Int %s)) %s)", vc.sortOf(et), vc.zeroOf(et))
		st.heap[k] = vc.define("h", vc.heapSorts[k], fmt.Sprintf("(store %s %s %s)", vc.heapGet(st, k), id, zero))
		fr.regs[i] = Val{T: fmt.Sprintf("(mk-slice %s 0 %s %s)", id, l, c)}
	case *ssa.MakeMap:
		id := x.allocID(st)
		mt := i.Type()
		m := mt.Underlying().(*types.Map)
		kh, kc := vc.heapKey("MH", mt), vc.heapKey("MC", mt)
		vc.heapKey("MV", mt)
		st.heap[kh] = fmt.Sprintf("(store %s %s ((as const (Array %s Bool)) false))", vc.heapGet(st, kh), id, vc.sortOf(m.Key()))
		st.heap[kc] = fmt.Sprintf("(store %s %s 0)", vc.heapGet(st, kc), id)
		fr.regs[i] = Val{T: id}
	case *ssa.MakeChan:
		id := x.allocID(st)
		fr.regs[i] = Val{T: id}
		x.atSite(fr, st, "makechan", fr.siteOrd("makechan", i), map[string]Val{"ch": {T: id}}, nil)
	case *ssa.Lookup:
		x.lookup(fr, st, i)
	case *ssa.MapUpdate:
		m := x.term(fr, st, x.value(fr, st, i.Map))
		k := x.term(fr, st, x.value(fr, st, i.Key))
		v := x.term(fr, st, x.value(fr, st, i.Value))
		x.nilCheck(fr, st, m, i.Pos(), "assignment to entry in nil map")
		mt := i.Map.Type()
		kh, kv, kc := vc.heapKey("MH", mt), vc.heapKey("MV", mt), vc.heapKey("MC", mt)
		hh, hv, hc := vc.heapGet(st, kh), vc.heapGet(st, kv), vc.heapGet(st, kc)
		had := fmt.Sprintf("(select (select %s %s) %s)", hh, m, k)
		st.heap[kc] = vc.define("h", vc.heapSorts[kc], fmt.Sprintf("(store %s %s (ite %s (select %s %s) (+ (select %s %s) 1)))", hc, m, had, hc, m, hc, m))
		st.heap[kh] = vc.define("h", vc.heapSorts[kh], fmt.Sprintf("(store %s %s (store (select %s %s) %s true))", hh, m, hh, m, k))
		st.heap[kv] = vc.define("h", vc.heapSorts[kv], fmt.Sprintf("(store %s %s (store (select %s %s) %s %s))", hv, m, hv, m, k, v))
	case *ssa.Range:
		xv := x.term(fr, st, x.value(fr, st, i.X))
		fr.regs[i] = Val{T: xv}
	case *ssa.Next:
		x.next(fr, st, i)
	case *ssa.Select:
		x.selectOp(fr, st, i)
	case *ssa.Send:
		ch := x.term(fr, st, x.value(fr, st, i.Chan))
		v := x.term(fr, st, x.value(fr, st, i.X))
		x.atSite(fr, st, "send", fr.siteOrd("send", i), map[string]Val{"ch": {T: ch}, "msg": {T: v}}, map[string]types.Type{"ch": i.Chan.Type(), "msg": i.X.Type()})
	case *ssa.Go:
		x.spawn(fr, st, i)
	case *ssa.Defer:
		d := deferred{guard: st.pc, instr: i}
		for _, a := range i.Call.Args {
			v := x.value(fr, st, a)
			d.args = append(d.args, Val{T: x.term(fr, st, v), Clo: v.Clo})
		}
		if !i.Call.IsInvoke() {
			if _, isB := i.Call.Value.(*ssa.Builtin); !isB {
				if _, isF := i.Call.Value.(*ssa.Function); !isF {
					v := x.value(fr, st, i.Call.Value)
					d.fnv = Val{T: x.term(fr, st, v), Clo: v.Clo}
				}
			}
		} else {
			v := x.value(fr, st, i.Call.Value)
			d.fnv = Val{T: x.term(fr, st, v)}
		}
		fr.defers = append(fr.defers, d)
	case *ssa.RunDefers:
		x.runDefers(fr, st)
	case *ssa.Call:
		r := x.call(fr, st, i.Common(), i, i.Pos(), nil, nil)
		fr.regs[i] = r
	default:
		x.abstractInstr(fr, st, in)
	}
}

func (fr *Frame) cloCells() map[*ssa.Alloc]*ssa.MakeClosure {
	if fr.clo == nil {
		fr.clo = map[*ssa.Alloc]*ssa.MakeClosure{}
	}
	return fr.clo
}

func (x *Exec) abstractInstr(fr *Frame, st *State, in ssa.Instruction) {
	v, ok := in.(ssa.Value)
	x.vc.abstracted = append(x.vc.abstracted, fmt.Sprintf("%s: %T at %s", fr.unit, in, x.pos(in.Pos())))
	if ok {
		fr.regs[v] = x.freshTyped(st, "abs", v.Type())
	}
}

// freshTyped returns an unconstrained (but well-typed) value of type t.
func (x *Exec) freshTyped(st *State, hint string, t types.Type) Val {
	if tup, ok := t.(*types.Tuple); ok {
		var vs []Val
		for k := 0; k < tup.Len(); k++ {
			vs = append(vs, x.freshTyped(st, hint, tup.At(k).Type()))
		}
		return Val{Tup: vs}
	}
	c := x.vc.freshConst(hint, x.vc.sortOf(t))
	x.vc.assumeTyped(st, c, t)
	return Val{T: c}
}

func (x *Exec) unop(fr *Frame, st *State, i *ssa.UnOp) {
	vc := x.vc
	switch i.Op {
	case token.MUL:
		xv := x.value(fr, st, i.X)
		if xv.ArrBlock || (xv.Loc == nil && isArrayT(pointee(i.X.Type()))) {
			et := pointee(i.X.Type()).Underlying().(*types.Array).Elem()
			k := vc.heapKey("E", et)
			fr.regs[i] = Val{T: fmt.Sprintf("(select %s %s)", vc.heapGet(st, k), xv.T)}
			return
		}
		l := x.locOf(fr, st, i.X, i.Pos())
		r := Val{T: x.load(fr, st, l)}
		if l.kind == lCell && fr.clo != nil {
			if c := fr.clo[l.cell]; c != nil {
				r.Clo = c
				r.CloFr = fr.cloFrs[l.cell]
			}
		}
		fr.regs[i] = r
	case token.NOT:
		fr.regs[i] = Val{T: "(not " + x.term(fr, st, x.value(fr, st, i.X)) + ")"}
	case token.SUB:
		a := x.term(fr, st, x.value(fr, st, i.X))
		if ii, ok := intInfoOf(i.Type()); ok {
			fr.regs[i] = Val{T: x.wrapIf(fr, ii, "(- "+a+")")}
		} else {
			vc.uf("fneg", []string{"Int"}, "Int")
			fr.regs[i] = Val{T: "(fneg " + a + ")"}
		}
	case token.XOR:
		a := x.term(fr, st, x.value(fr, st, i.X))
		if ii, ok := intInfoOf(i.Type()); ok {
			if ii.signed {
				fr.regs[i] = Val{T: fmt.Sprintf("(- (- %s) 1)", a)}
			} else {
				fr.regs[i] = Val{T: fmt.Sprintf("(- %s %s)", ii.max(), a)}
			}
		} else {
			x.abstractInstr(fr, st, i)
		}
	case token.ARROW:
		ch := x.term(fr, st, x.value(fr, st, i.X))
		var r Val
		et := i.X.Type().Underlying().(*types.Chan).Elem()
		msg := x.freshTyped(st, "recv", et)
		if i.CommaOk {
			ok := vc.freshConst("recvok", "Bool")
			r = Val{Tup: []Val{msg, {T: ok}}}
		} else {
			r = msg
		}
		fr.regs[i] = r
		x.atSite(fr, st, "recv", fr.siteOrd("recv", i), map[string]Val{"ch": {T: ch}, "msg": msg}, map[string]types.Type{"ch": i.X.Type(), "msg": et})
	default:
		x.abstractInstr(fr, st, i)
	}
}

// wrapIf applies machine wrap-around.  Signed 64-bit arithmetic is treated as
// mathematical (overflow of int/int64 counters is assumed not to happen; this
// is reported as an assumption in every evidence file); unsigned arithmetic
// and every width below 64 wraps exactly.
func (x *Exec) wrapIf(fr *Frame, ii intInfo, t string) string {
	if ii.bits == 64 && ii.signed && !(fr != nil && fr.exact64) {
		return t
	}
	if fr != nil && fr.math && ii.bits == 64 {
		return t
	}
	return ii.wrap(t)
}

func isFloatT(t types.Type) bool {
	b, ok := t.Underlying().(*types.Basic)
	return ok && b.Info()&types.IsFloat != 0
}
func isStringT(t types.Type) bool {
	b, ok := t.Underlying().(*types.Basic)
	return ok && b.Info()&types.IsString != 0
}
func isBoolT(t types.Type) bool {
	b, ok := t.Underlying().(*types.Basic)
	return ok && b.Info()&types.IsBoolean != 0
}

func (x *Exec) binop(fr *Frame, st *State, op token.Token, a, b string, ta, tb, tr types.Type, pos token.Pos) string {
	vc := x.vc
	switch op {
	case token.EQL, token.NEQ:
		var t string
		if _, isSl := ta.Underlying().(*types.Slice); isSl {
			// slices compare only against nil: the block pointer decides
			other := b
			if a == "(mk-slice 0 0 0 0)" {
				other = b
			} else {
				other = a
			}
			t = fmt.Sprintf("(= (s-arr %s) 0)", other)
		} else if isFloatT(ta) {
			vc.uf("feq", []string{"Int", "Int"}, "Bool")
			t = fmt.Sprintf("(feq %s %s)", a, b)
		} else {
			t = fmt.Sprintf("(= %s %s)", a, b)
		}
		if op == token.NEQ {
			return "(not " + t + ")"
		}
		return t
	case token.LAND:
		return fmt.Sprintf("(and %s %s)", a, b)
	case token.LOR:
		return fmt.Sprintf("(or %s %s)", a, b)
	}
	if ii, ok := intInfoOf(ta); ok {
		switch op {
		case token.ADD:
			return x.wrapIf(fr, ii, fmt.Sprintf("(+ %s %s)", a, b))
		case token.SUB:
			return x.wrapIf(fr, ii, fmt.Sprintf("(- %s %s)", a, b))
		case token.MUL:
			return x.wrapIf(fr, ii, fmt.Sprintf("(* %s %s)", a, b))
		case token.QUO, token.REM:
			g := fmt.Sprintf("(not (= %s 0))", b)
			if fr != nil && fr.nopanic {
				vc.oblige(fmt.Sprintf("%s/div%s", fr.unit, x.ordTag(fr, "div", pos)), "div", fr.unit, x.pos(pos), "division by zero", st.pc, g)
			} else if st != nil {
				vc.assume(st.pc, g)
			}
			if op == token.QUO {
				return x.wrapIf(fr, ii, fmt.Sprintf("(go_div %s %s)", a, b))
			}
			return fmt.Sprintf("(go_rem %s %s)", a, b)
		case token.LSS:
			return fmt.Sprintf("(< %s %s)", a, b)
		case token.LEQ:
			return fmt.Sprintf("(<= %s %s)", a, b)
		case token.GTR:
			return fmt.Sprintf("(> %s %s)", a, b)
		case token.GEQ:
			return fmt.Sprintf("(>= %s %s)", a, b)
		case token.SHL, token.SHR:
			if n, ok := smallNumeral(b); ok {
				if op == token.SHL {
					return x.wrapIf(fr, ii, fmt.Sprintf("(* %s %s)", a, pow2(n)))
				}
				return fmt.Sprintf("(div %s %s)", a, pow2(n))
			}
			fn := "shl"
			if op == token.SHR {
				fn = "shr"
			}
			vc.uf(fn, []string{"Int", "Int"}, "Int")
			t := fmt.Sprintf("(%s %s %s)", fn, a, b)
			if st != nil {
				vc.assume(st.pc, ii.inRange(t))
			}
			return t
		case token.AND:
			if n, ok := maskBits(b); ok && !ii.signed {
				return fmt.Sprintf("(mod %s %s)", a, pow2(n))
			}
			fallthrough
		case token.OR, token.XOR, token.AND_NOT:
			fn := map[token.Token]string{token.AND: "bitand", token.OR: "bitor", token.XOR: "bitxor", token.AND_NOT: "bitandnot"}[op]
			vc.uf(fn, []string{"Int", "Int"}, "Int")
			t := fmt.Sprintf("(%s %s %s)", fn, a, b)
			if st != nil {
				vc.assume(st.pc, ii.inRange(t))
			}
			return t
		}
	}
	if isFloatT(ta) {
		m := map[token.Token][2]string{token.ADD: {"fadd", "Int"}, token.SUB: {"fsub", "Int"}, token.MUL: {"fmul", "Int"}, token.QUO: {"fdiv", "Int"},
			token.LSS: {"flt", "Bool"}, token.LEQ: {"fle", "Bool"}, token.GTR: {"fgt", "Bool"}, token.GEQ: {"fge", "Bool"}}
		if e, ok := m[op]; ok {
			vc.uf(e[0], []string{"Int", "Int"}, e[1])
			return fmt.Sprintf("(%s %s %s)", e[0], a, b)
		}
	}
	if isStringT(ta) {
		switch op {
		case token.ADD:
			if !vc.ufDeclared("strcat") {
				vc.uf("strcat", []string{"Int", "Int"}, "Int")
				// the empty string (0) is the identity of concatenation
				vc.emit("(assert (forall ((x Int)) (! (= (strcat 0 x) x) :pattern ((strcat 0 x)))))")
				vc.emit("(assert (forall ((x Int)) (! (= (strcat x 0) x) :pattern ((strcat x 0)))))")
			}
			t := fmt.Sprintf("(strcat %s %s)", a, b)
			if st != nil {
				vc.assume(st.pc, fmt.Sprintf("(= (strlen %s) (+ (strlen %s) (strlen %s)))", t, a, b))
			}
			return t
		case token.LSS, token.LEQ, token.GTR, token.GEQ:
			vc.uf("strlt", []string{"Int", "Int"}, "Bool")
			switch op {
			case token.LSS:
				return fmt.Sprintf("(strlt %s %s)", a, b)
			case token.GTR:
				return fmt.Sprintf("(strlt %s %s)", b, a)
			case token.LEQ:
				return fmt.Sprintf("(not (strlt %s %s))", b, a)
			case token.GEQ:
				return fmt.Sprintf("(not (strlt %s %s))", a, b)
			}
		}
	}
	x.vc.abstracted = append(x.vc.abstracted, fmt.Sprintf("binop %s on %s", op, ta))
	return x.vc.freshConst("binop", x.vc.sortOf(tr))
}

func smallNumeral(s string) (int, bool) {
	var n int
	if _, err := fmt.Sscanf(s, "%d", &n); err == nil && fmt.Sprint(n) == s && n >= 0 && n < 128 {
		return n, true
	}
	return 0, false
}

func maskBits(s string) (int, bool) {
	var n uint64
	if _, err := fmt.Sscanf(s, "%d", &n); err == nil && fmt.Sprint(n) == s {
		for k := 1; k < 64; k++ {
			if n == (uint64(1)<<uint(k))-1 {
				return k, true
			}
		}
	}
	return 0, false
}

func (x *Exec) convert(fr *Frame, st *State, a string, from, to types.Type) string {
	vc := x.vc
	fi, fok := intInfoOf(from)
	ti, tok := intInfoOf(to)
	switch {
	case fok && tok:
		if ti.signed == fi.signed && ti.bits >= fi.bits {
			return a
		}
		if !fi.signed && ti.signed && ti.bits > fi.bits {
			return a
		}
		return ti.wrap(a)
	case fok && isFloatT(to):
		vc.uf("i2f", []string{"Int"}, "Int")
		return "(i2f " + a + ")"
	case isFloatT(from) && tok:
		vc.uf("f2i", []string{"Int"}, "Int")
		t := "(f2i " + a + ")"
		if st != nil {
			vc.assume(st.pc, ti.inRange(ti.wrap(t)))
		}
		return ti.wrap(t)
	case isFloatT(from) && isFloatT(to):
		if from.Underlying().(*types.Basic).Kind() == to.Underlying().(*types.Basic).Kind() {
			return a
		}
		vc.uf("f2f", []string{"Int"}, "Int")
		return "(f2f " + a + ")"
	case isStringT(from) && isStringT(to):
		return a
	}
	// string <-> []byte, int -> string, unsafe.Pointer ...
	if st == nil {
		return vc.freshConst("conv", vc.sortOf(to))
	}
	if isStringT(from) {
		if _, ok := to.Underlying().(*types.Slice); ok {
			id := x.allocID(st)
			return fmt.Sprintf("(mk-slice %s 0 (strlen %s) (strlen %s))", id, a, a)
		}
	}
	if _, ok := from.Underlying().(*types.Slice); ok && isStringT(to) {
		vc.uf("bytes2str", []string{"Int", "Int", "Int"}, "Int")
		s := vc.freshConst("str", "Int")
		vc.assume(st.pc, fmt.Sprintf("(= (strlen %s) (s-len %s))", s, a))
		return s
	}
	if vc.sortOf(from) == vc.sortOf(to) {
		return a
	}
	vc.abstracted = append(vc.abstracted, fmt.Sprintf("convert %s -> %s", from, to))
	v := x.freshTyped(st, "conv", to)
	return v.T
}

func (x *Exec) sortTag(t types.Type) string {
	return sanitize(x.vc.sortOf(t))
}

// box makes an interface value from a concrete value.
func (x *Exec) box(st *State, v string, t types.Type) string {
	vc := x.vc
	if _, isIface := t.Underlying().(*types.Interface); isIface {
		return v
	}
	tag := x.sortTag(t)
	x.declBox(t)
	tid := vc.typeID(t)
	return fmt.Sprintf("(box_%s %s %s)", tag, tid, v)
}

// declBox declares the boxing functions of one value sort with their axioms.
func (x *Exec) declBox(t types.Type) {
	vc := x.vc
	tag := x.sortTag(t)
	if vc.ufs["box_"+tag] {
		return
	}
	srt := vc.sortOf(t)
	vc.uf("box_"+tag, []string{"Int", srt}, "Int")
	vc.uf("unbox_"+tag, []string{"Int"}, srt)
	vc.emit(fmt.Sprintf("(assert (forall ((t Int) (v %s)) (! (and (> (box_%s t v) 0) (= (dyntype (box_%s t v)) t) (= (unbox_%s (box_%s t v)) v)) :pattern ((box_%s t v)))))", srt, tag, tag, tag, tag, tag))
}

func (x *Exec) typeAssert(fr *Frame, st *State, i *ssa.TypeAssert) {
	vc := x.vc
	xv := x.term(fr, st, x.value(fr, st, i.X))
	var ok, val string
	if _, isIface := i.AssertedType.Underlying().(*types.Interface); isIface {
		name := "implements_" + sanitize(typeKey(i.AssertedType))
		if len(name) > 60 {
			name = fmt.Sprintf("implements_t%s", vc.typeID(i.AssertedType))
		}
		vc.uf(name, []string{"Int"}, "Bool")
		ok = fmt.Sprintf("(and (not (= %s 0)) (%s (dyntype %s)))", xv, name, xv)
		// static knowledge: if the operand's static type already implements the target
		if xi, isI := i.X.Type().Underlying().(*types.Interface); isI && types.Implements(xi, i.AssertedType.Underlying().(*types.Interface)) {
			ok = fmt.Sprintf("(not (= %s 0))", xv)
		}
		val = xv
	} else {
		tag := x.sortTag(i.AssertedType)
		x.declBox(i.AssertedType)
		ok = fmt.Sprintf("(= (dyntype %s) %s)", xv, vc.typeID(i.AssertedType))
		val = fmt.Sprintf("(unbox_%s %s)", tag, xv)
		// boxing the extracted value gives the interface value back
		vc.assume(st.pc, fmt.Sprintf("(=> %s (= (box_%s %s %s) %s))", ok, tag, vc.typeID(i.AssertedType), val, xv))
	}
	if x.top != nil && x.top.ct != nil && x.top.ct.UnboxNonNil && pointee(i.AssertedType) != nil {
		// [A] typed-nil pointers inside interface values do not occur
		vc.assume(st.pc, fmt.Sprintf("(=> %s (not (= %s 0)))", ok, val))
		vc.usedAssumed["pointers extracted from interface values by type assertion are non-nil (no typed-nil pointers inside interfaces) in "+x.top.unit] = true
	}
	if i.CommaOk {
		okc := vc.define("taok", "Bool", ok)
		v := fmt.Sprintf("(ite %s %s %s)", okc, val, vc.zeroOf(i.AssertedType))
		vd := vc.freshDef("ta", vc.sortOf(i.AssertedType), v)
		vc.assumeTyped(st, vd, i.AssertedType)
		fr.regs[i] = Val{Tup: []Val{{T: vd}, {T: okc}}}
		return
	}
	if fr.nopanic {
		vc.oblige(fmt.Sprintf("%s/type-assert%s", fr.unit, x.ordTag(fr, "ta", i.Pos())), "type-assert", fr.unit, x.pos(i.Pos()), "type assertion to "+typeKey(i.AssertedType), st.pc, ok)
	} else {
		fr.nextOrd("ta")
		vc.assume(st.pc, ok)
	}
	vd := vc.freshDef("ta", vc.sortOf(i.AssertedType), val)
	vc.assumeTyped(st, vd, i.AssertedType)
	fr.regs[i] = Val{T: vd}
}

func (x *Exec) indexAddr(fr *Frame, st *State, i *ssa.IndexAddr) {
	vc := x.vc
	xv := x.value(fr, st, i.X)
	iv := x.term(fr, st, x.value(fr, st, i.Index))
	switch xt := i.X.Type().Underlying().(type) {
	case *types.Slice:
		s := xv.T
		x.boundsCheck(fr, st, iv, fmt.Sprintf("(s-len %s)", s), i.Pos(), "slice index "+i.X.Name())
		fr.regs[i] = Val{Loc: &Loc{kind: lElem, key: vc.heapKey("E", xt.Elem()), ptr: fmt.Sprintf("(s-arr %s)", s),
			idx: vc.define("ix", "Int", fmt.Sprintf("(eidx (s-off %s) %s)", s, iv)), rootT: xt.Elem(), typ: xt.Elem()}}
	case *types.Pointer:
		at := xt.Elem().Underlying().(*types.Array)
		x.boundsCheck(fr, st, iv, fmt.Sprint(at.Len()), i.Pos(), "array index")
		if xv.Loc != nil {
			fr.regs[i] = Val{Loc: xv.Loc.extend(sel{field: -1, idx: iv}, at.Elem())}
			return
		}
		if !xv.ArrBlock {
			x.nilCheck(fr, st, xv.T, i.Pos(), "index through nil array pointer")
		}
		fr.regs[i] = Val{Loc: &Loc{kind: lElem, key: vc.heapKey("E", at.Elem()), ptr: xv.T, idx: iv, rootT: at.Elem(), typ: at.Elem()}}
	default:
		x.eng.fatalf("%s: IndexAddr on %s", fr.fn, i.X.Type())
	}
}

func (x *Exec) sliceOp(fr *Frame, st *State, i *ssa.Slice) {
	vc := x.vc
	xv := x.value(fr, st, i.X)
	opt := func(v ssa.Value, def string) string {
		if v == nil {
			return def
		}
		return x.term(fr, st, x.value(fr, st, v))
	}
	switch xt := i.X.Type().Underlying().(type) {
	case *types.Slice:
		s := xv.T
		lo := opt(i.Low, "0")
		hi := opt(i.High, fmt.Sprintf("(s-len %s)", s))
		mx := opt(i.Max, fmt.Sprintf("(s-cap %s)", s))
		g := fmt.Sprintf("(and (<= 0 %s) (<= %s %s) (<= %s %s) (<= %s (s-cap %s)))", lo, lo, hi, hi, mx, mx, s)
		x.sliceCheck(fr, st, g, i.Pos())
		fr.regs[i] = Val{T: vc.define("sl", "Slice", fmt.Sprintf("(mk-slice (s-arr %s) (+ (s-off %s) %s) (- %s %s) (- %s %s))", s, s, lo, hi, lo, mx, lo))}
	case *types.Pointer:
		at := xt.Elem().Underlying().(*types.Array)
		n := fmt.Sprint(at.Len())
		var id string
		if xv.Loc != nil {
			id = x.materialise(fr, st, xv.Loc)
		} else {
			id = xv.T
		}
		lo := opt(i.Low, "0")
		hi := opt(i.High, n)
		mx := opt(i.Max, n)
		g := fmt.Sprintf("(and (<= 0 %s) (<= %s %s) (<= %s %s) (<= %s %s))", lo, lo, hi, hi, mx, mx, n)
		x.sliceCheck(fr, st, g, i.Pos())
		fr.regs[i] = Val{T: vc.define("sl", "Slice", fmt.Sprintf("(mk-slice %s %s (- %s %s) (- %s %s))", id, lo, hi, lo, mx, lo))}
	default:
		// string slicing
		s := xv.T
		lo := opt(i.Low, "0")
		hi := opt(i.High, fmt.Sprintf("(strlen %s)", s))
		g := fmt.Sprintf("(and (<= 0 %s) (<= %s %s) (<= %s (strlen %s)))", lo, lo, hi, hi, s)
		x.sliceCheck(fr, st, g, i.Pos())
		vc.uf("substr", []string{"Int", "Int", "Int"}, "Int")
		t := fmt.Sprintf("(substr %s %s %s)", s, lo, hi)
		vc.assume(st.pc, fmt.Sprintf("(= (strlen %s) (- %s %s))", t, hi, lo))
		fr.regs[i] = Val{T: t}
	}
}

func (x *Exec) sliceCheck(fr *Frame, st *State, g string, pos token.Pos) {
	if fr.nopanic {
		x.vc.oblige(fmt.Sprintf("%s/slice%s", fr.unit, x.ordTag(fr, "slice", pos)), "slice", fr.unit, x.pos(pos), "slice bounds", st.pc, g)
	} else {
		fr.nextOrd("slice")
		x.vc.assume(st.pc, g)
	}
}

func (x *Exec) lookup(fr *Frame, st *State, i *ssa.Lookup) {
	vc := x.vc
	xv := x.term(fr, st, x.value(fr, st, i.X))
	k := x.term(fr, st, x.value(fr, st, i.Index))
	mt, isMap := i.X.Type().Underlying().(*types.Map)
	if !isMap {
		x.boundsCheck(fr, st, k, fmt.Sprintf("(strlen %s)", xv), i.Pos(), "string index")
		vc.uf("str_at", []string{"Int", "Int"}, "Int")
		fr.regs[i] = Val{T: fmt.Sprintf("(str_at %s %s)", xv, k)}
		return
	}
	kh, kv := vc.heapKey("MH", i.X.Type()), vc.heapKey("MV", i.X.Type())
	has := vc.define("has", "Bool", fmt.Sprintf("(and (not (= %s 0)) (select (select %s %s) %s))", xv, vc.heapGet(st, kh), xv, k))
	val := fmt.Sprintf("(ite %s (select (select %s %s) %s) %s)", has, vc.heapGet(st, kv), xv, k, vc.zeroOf(mt.Elem()))
	vd := vc.freshDef("mv", vc.sortOf(mt.Elem()), val)
	vc.assumeTyped(st, vd, mt.Elem())
	if i.CommaOk {
		fr.regs[i] = Val{Tup: []Val{{T: vd}, {T: has}}}
	} else {
		fr.regs[i] = Val{T: vd}
	}
}

func (x *Exec) next(fr *Frame, st *State, i *ssa.Next) {
	vc := x.vc
	tup := i.Type().(*types.Tuple)
	ok := vc.freshConst("nextok", "Bool")
	var vs []Val
	vs = append(vs, Val{T: ok})
	for k := 1; k < tup.Len(); k++ {
		t := tup.At(k).Type()
		if b, isB := t.(*types.Basic); isB && b.Kind() == types.Invalid {
			vs = append(vs, Val{T: "0"})
			continue
		}
		vs = append(vs, x.freshTyped(st, "next", t))
	}
	if !i.IsString {
		rng := i.Iter.(*ssa.Range)
		if _, isMap := rng.X.Type().Underlying().(*types.Map); isMap {
			m := x.term(fr, st, fr.regs[rng])
			kh, kv := vc.heapKey("MH", rng.X.Type()), vc.heapKey("MV", rng.X.Type())
			fact := fmt.Sprintf("(and (not (= %s 0)) (select (select %s %s) %s))", m, vc.heapGet(st, kh), m, vs[1].T)
			if vs[2].T != "0" || true {
				if _, inv := tup.At(2).Type().(*types.Basic); !inv || tup.At(2).Type().(*types.Basic).Kind() != types.Invalid {
					fact = fmt.Sprintf("(and %s (= %s (select (select %s %s) %s)))", fact, vs[2].T, vc.heapGet(st, kv), m, vs[1].T)
				}
			}
			vc.assume(st.pc, fmt.Sprintf("(=> %s %s)", ok, fact))
		}
	}
	fr.regs[i] = Val{Tup: vs}
}

func (x *Exec) selectOp(fr *Frame, st *State, i *ssa.Select) {
	vc := x.vc
	idx := vc.freshConst("selidx", "Int")
	lo := "0"
	if !i.Blocking {
		lo = "(- 1)"
	}
	vc.assume(st.pc, fmt.Sprintf("(and (<= %s %s) (< %s %d))", lo, idx, idx, len(i.States)))
	vs := []Val{{T: idx}, {T: vc.freshConst("recvok", "Bool")}}
	ord := fr.siteOrd("select", i)
	for k, s := range i.States {
		ch := x.term(fr, st, x.value(fr, st, s.Chan))
		if s.Dir == types.RecvOnly {
			et := s.Chan.Type().Underlying().(*types.Chan).Elem()
			msg := x.freshTyped(st, "selrecv", et)
			vs = append(vs, msg)
			sub := st.clone()
			sub.pc = fmt.Sprintf("(and %s (= %s %d))", st.pc, idx, k)
			x.atSite(fr, sub, fmt.Sprintf("select%d.recv", ord), k, map[string]Val{"ch": {T: ch}, "msg": msg}, map[string]types.Type{"ch": s.Chan.Type(), "msg": et})
			x.ghostBack(st, sub, fmt.Sprintf("(= %s %d)", idx, k))
		} else {
			msg := x.term(fr, st, x.value(fr, st, s.Send))
			sub := st.clone()
			sub.pc = fmt.Sprintf("(and %s (= %s %d))", st.pc, idx, k)
			x.atSite(fr, sub, fmt.Sprintf("select%d.send", ord), k, map[string]Val{"ch": {T: ch}, "msg": {T: msg}}, map[string]types.Type{"ch": s.Chan.Type(), "msg": s.Send.Type()})
			x.ghostBack(st, sub, fmt.Sprintf("(= %s %d)", idx, k))
		}
	}
	fr.regs[i] = Val{Tup: vs}
}

// ghostBack merges ghost updates made under a case-restricted view back
// into the main state.
func (x *Exec) ghostBack(st, sub *State, cond string) {
	for g, v := range sub.ghost {
		old, ok := st.ghost[g]
		if ok && old == v {
			continue
		}
		if !ok {
			continue
		}
		st.ghost[g] = fmt.Sprintf("(ite %s %s %s)", cond, v, old)
	}
	// ghost fields set at the site (G| heaps)
	for k, v := range sub.heap {
		if !strings.HasPrefix(k, "G|") {
			continue
		}
		if old, ok := st.heap[k]; ok && old != v {
			st.heap[k] = fmt.Sprintf("(ite %s %s %s)", cond, v, old)
		} else if !ok {
			st.heap[k] = fmt.Sprintf("(ite %s %s %s)", cond, v, x.vc.heapGet(st, k))
		}
	}
}

func (x *Exec) runDefers(fr *Frame, st *State) {
	for k := len(fr.defers) - 1; k >= 0; k-- {
		d := fr.defers[k]
		// run the deferred call under its guard, then merge
		run := st.clone()
		run.pc = x.vc.freshDef("pc_defer", "Bool", fmt.Sprintf("(and %s %s)", st.pc, d.guard))
		skip := st.clone()
		skip.pc = x.vc.freshDef("pc_nodefer", "Bool", fmt.Sprintf("(and %s (not %s))", st.pc, d.guard))
		x.call(fr, run, &d.instr.Call, d.instr, d.instr.Pos(), d.args, &d.fnv)
		m := x.vc.merge([]edgeState{{st: run}, {st: skip}}, "defer", x.cellType)
		*st = *m
	}
}

func describeCall(c *ssa.CallCommon) string {
	if c.IsInvoke() {
		return fmt.Sprintf("invoke %s.%s", c.Value.Type(), c.Method.Name())
	}
	s := c.Value.String()
	if f := c.StaticCallee(); f != nil {
		s = f.String()
	}
	return strings.ReplaceAll(s, "github.com/open-telemetry/otel-arrow/", "")
}
