package main

import (
	"fmt"
	"go/types"
	"math/big"
	"sort"
	"strings"
)

// VC is the SMT-LIB script under construction for one verification unit
// (one function under contract, or one lemma).  Lines are appended in
// program order; every obligation remembers how many lines precede it, so
// that an obligation is checked against exactly the facts established before
// it (later assumptions never weaken earlier assertions).
type VC struct {
	eng         *Engine
	unit        string
	lines       []string
	declared    map[string]bool
	structSorts map[string]string // type key -> datatype name
	structTypes map[string]*types.Struct
	heapNames   map[string]string // heap key -> base name
	heapSorts   map[string]string
	typeIDs     map[string]int
	strIDs      map[string]int
	floatIDs    map[string]int
	obligations []*Obligation
	nfresh      int
	usedAssumed map[string]bool
	abstracted  []string
	ufs         map[string]bool
	notes       []string
	ghostLocalSorts map[string]string
	heapTrace       map[string]string
	quiet           int
	inputs          [][2]string // (label, term): symbolic inputs whose model values are reported
}

type Obligation struct {
	Name    string   `json:"name"`
	Kind    string   `json:"kind"`
	Func    string   `json:"func"`
	Unit    string   `json:"unit,omitempty"` // the function under contract whose verification generated it (Func may name an inlined callee)
	Pos     string   `json:"pos,omitempty"`
	Desc    string   `json:"desc,omitempty"`
	Props   []string `json:"props,omitempty"`
	prefix  int
	goal    string // formula whose satisfiability refutes the obligation: pc && !goal
	Status  string  `json:"status"` // discharged | refuted | unknown
	Solver  string  `json:"solver,omitempty"`
	TimeS   float64 `json:"time_s"`
	Model   string  `json:"model,omitempty"`
	Output  string  `json:"output,omitempty"`
	Expect  string  `json:"expect,omitempty"` // "fail" for canaries
	Sweep   bool    `json:"sweep,omitempty"`
	Quick   bool    `json:"-"` // recorded as an open known finding: expected to fail, short timeout
	Values  map[string]string `json:"input_values,omitempty"`
	vc      *VC
	SMTFile string `json:"-"`
}

func newVC(eng *Engine, unit string) *VC {
	vc := &VC{eng: eng, unit: unit,
		declared: map[string]bool{}, structSorts: map[string]string{}, structTypes: map[string]*types.Struct{},
		heapNames: map[string]string{}, heapSorts: map[string]string{},
		typeIDs: map[string]int{}, strIDs: map[string]int{}, floatIDs: map[string]int{},
		usedAssumed: map[string]bool{}, ufs: map[string]bool{}, ghostLocalSorts: map[string]string{}}
	vc.emit("(declare-datatype Slice ((mk-slice (s-arr Int) (s-off Int) (s-len Int) (s-cap Int))))")
	vc.emit("(declare-fun dyntype (Int) Int)")
	vc.emit("(declare-fun strlen (Int) Int)")
	vc.emit("(define-fun go_div ((a Int) (b Int)) Int (ite (>= a 0) (ite (> b 0) (div a b) (- (div a (- b)))) (ite (> b 0) (- (div (- a) b)) (div (- a) (- b)))))")
	vc.emit("(define-fun go_rem ((a Int) (b Int)) Int (- a (* b (go_div a b))))")
	vc.emit("(declare-fun eidx (Int Int) Int)")
	vc.emit("(assert (forall ((o Int) (i Int)) (! (= (eidx o i) (+ o i)) :pattern ((eidx o i)))))")
	vc.emit("(assert (= (dyntype 0) 0))")
	vc.emit("(assert (= (strlen 0) 0))")
	return vc
}

func (vc *VC) emit(s string) { vc.lines = append(vc.lines, s) }

func (vc *VC) fresh(hint string) string {
	vc.nfresh++
	return fmt.Sprintf("%s!%d", sanitize(hint), vc.nfresh)
}

func sanitize(s string) string {
	var b strings.Builder
	for _, r := range s {
		switch {
		case r >= 'a' && r <= 'z', r >= 'A' && r <= 'Z', r >= '0' && r <= '9', r == '_', r == '.', r == '$':
			b.WriteRune(r)
		default:
			b.WriteRune('_')
		}
	}
	if b.Len() == 0 {
		return "v"
	}
	return b.String()
}

// declare a fresh constant of the given sort
func (vc *VC) freshConst(hint, sort string) string {
	n := vc.fresh(hint)
	vc.emit(fmt.Sprintf("(declare-fun %s () %s)", n, sort))
	return n
}

// define a named abbreviation (keeps terms DAG-shaped)
func (vc *VC) define(hint, sort, term string) string {
	if vc.quiet > 0 {
		return term
	}
	if len(term) < 40 && !strings.Contains(term, "ite") {
		return term
	}
	n := vc.fresh(hint)
	vc.emit(fmt.Sprintf("(define-fun %s () %s %s)", n, sort, term))
	return n
}

func (vc *VC) uf(name string, argSorts []string, res string) {
	if vc.ufs[name] {
		return
	}
	vc.ufs[name] = true
	vc.emit(fmt.Sprintf("(declare-fun %s (%s) %s)", name, strings.Join(argSorts, " "), res))
}

func (vc *VC) ufDeclared(name string) bool { return vc.ufs[name] }

func (vc *VC) assume(pc, fact string) {
	if fact == "true" || vc.quiet > 0 {
		// quiet: inside a quantifier body (terms mention bound variables)
		return
	}
	if pc == "true" {
		vc.emit(fmt.Sprintf("(assert %s)", fact))
	} else {
		vc.emit(fmt.Sprintf("(assert (=> %s %s))", pc, fact))
	}
}

// oblige records an obligation: under the facts so far, pc implies goal.
func (vc *VC) oblige(name, kind, fn, pos, desc, pc, goal string) *Obligation {
	if vc.quiet > 0 {
		// obligations are never generated from specification-level evaluation
		return &Obligation{Name: name, vc: vc}
	}
	// unique names
	base := name
	n := 0
	for _, o := range vc.obligations {
		if o.Name == name {
			n++
			name = fmt.Sprintf("%s~%d", base, n)
		}
	}
	o := &Obligation{Name: name, Kind: kind, Func: fn, Pos: pos, Desc: desc, prefix: len(vc.lines), vc: vc}
	o.goal = fmt.Sprintf("(and %s (not %s))", pc, goal)
	vc.obligations = append(vc.obligations, o)
	// after asserting, assume (standard assert-then-assume)
	vc.assume(pc, goal)
	return o
}

// ---------------------------------------------------------------- sorts

func typeKey(t types.Type) string {
	return types.TypeString(t, nil)
}

func (vc *VC) sortOf(t types.Type) string {
	switch u := t.(type) {
	case *types.Named:
		if st, ok := u.Underlying().(*types.Struct); ok {
			return vc.structSort(typeKey(u), st)
		}
		return vc.sortOf(u.Underlying())
	case *types.Alias:
		return vc.sortOf(types.Unalias(u))
	case *types.Basic:
		if u.Info()&types.IsBoolean != 0 {
			return "Bool"
		}
		return "Int"
	case *types.Pointer, *types.Chan, *types.Map, *types.Signature, *types.Interface:
		return "Int"
	case *types.Slice:
		return "Slice"
	case *types.Struct:
		return vc.structSort(typeKey(u), u)
	case *types.Array:
		return fmt.Sprintf("(Array Int %s)", vc.sortOf(u.Elem()))
	case *types.TypeParam:
		return "Int"
	case *types.Tuple:
		panic("sortOf tuple")
	}
	panic(fmt.Sprintf("sortOf: unhandled %T %v", t, t))
}

func (vc *VC) structSort(key string, st *types.Struct) string {
	if n, ok := vc.structSorts[key]; ok {
		return n
	}
	n := fmt.Sprintf("S%d", len(vc.structSorts))
	vc.structSorts[key] = n
	vc.structTypes[n] = st
	var fs []string
	for i := 0; i < st.NumFields(); i++ {
		fs = append(fs, fmt.Sprintf("(%s_f%d %s)", n, i, vc.sortOf(st.Field(i).Type())))
	}
	short := key
	if len(short) > 100 {
		short = short[:100]
	}
	vc.emit(fmt.Sprintf("; %s = %s", n, strings.ReplaceAll(short, "\n", " ")))
	if len(fs) == 0 {
		vc.emit(fmt.Sprintf("(declare-datatype %s ((mk_%s)))", n, n))
	} else {
		vc.emit(fmt.Sprintf("(declare-datatype %s ((mk_%s %s)))", n, n, strings.Join(fs, " ")))
	}
	return n
}

func structOf(t types.Type) *types.Struct {
	st, _ := t.Underlying().(*types.Struct)
	return st
}

func (vc *VC) fieldSel(structT types.Type, i int, base string) string {
	n := vc.sortOf(structT)
	return fmt.Sprintf("(%s_f%d %s)", n, i, base)
}

func (vc *VC) fieldUpd(structT types.Type, i int, base, v string) string {
	n := vc.sortOf(structT)
	st := structOf(structT)
	var parts []string
	for k := 0; k < st.NumFields(); k++ {
		if k == i {
			parts = append(parts, v)
		} else {
			parts = append(parts, fmt.Sprintf("(%s_f%d %s)", n, k, base))
		}
	}
	return fmt.Sprintf("(mk_%s %s)", n, strings.Join(parts, " "))
}

func (vc *VC) zeroOf(t types.Type) string {
	switch u := t.(type) {
	case *types.Named:
		if st, ok := u.Underlying().(*types.Struct); ok {
			return vc.zeroStruct(u, st)
		}
		return vc.zeroOf(u.Underlying())
	case *types.Alias:
		return vc.zeroOf(types.Unalias(u))
	case *types.Basic:
		if u.Info()&types.IsBoolean != 0 {
			return "false"
		}
		return "0"
	case *types.Slice:
		return "(mk-slice 0 0 0 0)"
	case *types.Struct:
		return vc.zeroStruct(u, u)
	case *types.Array:
		return fmt.Sprintf("((as const %s) %s)", vc.sortOf(u), vc.zeroOf(u.Elem()))
	}
	return "0"
}

func (vc *VC) zeroStruct(t types.Type, st *types.Struct) string {
	n := vc.sortOf(t)
	if st.NumFields() == 0 {
		return "mk_" + n
	}
	var parts []string
	for i := 0; i < st.NumFields(); i++ {
		parts = append(parts, vc.zeroOf(st.Field(i).Type()))
	}
	return fmt.Sprintf("(mk_%s %s)", n, strings.Join(parts, " "))
}

// ---------------------------------------------------------------- integers

type intInfo struct {
	bits   int
	signed bool
}

func intInfoOf(t types.Type) (intInfo, bool) {
	b, ok := t.Underlying().(*types.Basic)
	if !ok {
		return intInfo{}, false
	}
	switch b.Kind() {
	case types.Int, types.Int64, types.UntypedInt, types.UntypedRune:
		return intInfo{64, true}, true
	case types.Int8:
		return intInfo{8, true}, true
	case types.Int16:
		return intInfo{16, true}, true
	case types.Int32:
		return intInfo{32, true}, true
	case types.Uint, types.Uint64, types.Uintptr:
		return intInfo{64, false}, true
	case types.Uint8:
		return intInfo{8, false}, true
	case types.Uint16:
		return intInfo{16, false}, true
	case types.Uint32:
		return intInfo{32, false}, true
	}
	return intInfo{}, false
}

func pow2(n int) string {
	return new(big.Int).Lsh(big.NewInt(1), uint(n)).String()
}

func (ii intInfo) min() string {
	if !ii.signed {
		return "0"
	}
	return "(- " + pow2(ii.bits-1) + ")"
}
func (ii intInfo) max() string {
	if !ii.signed {
		return new(big.Int).Sub(new(big.Int).Lsh(big.NewInt(1), uint(ii.bits)), big.NewInt(1)).String()
	}
	return new(big.Int).Sub(new(big.Int).Lsh(big.NewInt(1), uint(ii.bits-1)), big.NewInt(1)).String()
}

func (ii intInfo) inRange(x string) string {
	return fmt.Sprintf("(and (<= %s %s) (<= %s %s))", ii.min(), x, x, ii.max())
}

// wrap an unbounded integer term to the machine range
func (ii intInfo) wrap(x string) string {
	m := pow2(ii.bits)
	if !ii.signed {
		return fmt.Sprintf("(mod %s %s)", x, m)
	}
	h := pow2(ii.bits - 1)
	return fmt.Sprintf("(- (mod (+ %s %s) %s) %s)", x, h, m, h)
}

func smtInt(v *big.Int) string {
	if v.Sign() < 0 {
		return "(- " + new(big.Int).Neg(v).String() + ")"
	}
	return v.String()
}

// ---------------------------------------------------------------- interning

func (vc *VC) typeID(t types.Type) string {
	k := typeKey(t)
	id, ok := vc.typeIDs[k]
	if !ok {
		id = len(vc.typeIDs) + 1
		vc.typeIDs[k] = id
		vc.emit(fmt.Sprintf("; typeid %d = %s", id, strings.ReplaceAll(k, "\n", " ")))
	}
	return fmt.Sprint(id)
}

func (vc *VC) strConst(s string) string {
	if s == "" {
		return "0"
	}
	id, ok := vc.strIDs[s]
	if !ok {
		id = len(vc.strIDs) + 1
		vc.strIDs[s] = id
		c := fmt.Sprintf("%d", -id) // interned string constants are negative ids
		vc.emit(fmt.Sprintf("; str %d = %q", -id, s))
		vc.emit(fmt.Sprintf("(assert (= (strlen (- %d)) %d))", id, len(s)))
		_ = c
	}
	return fmt.Sprintf("(- %d)", id)
}

func (vc *VC) floatConst(bits string) string {
	id, ok := vc.floatIDs[bits]
	if !ok {
		id = len(vc.floatIDs) + 1
		vc.floatIDs[bits] = id
		vc.emit(fmt.Sprintf("; float %d = %s", id, bits))
	}
	return fmt.Sprint(id)
}

// ---------------------------------------------------------------- heaps

// heap kinds: "H" (pointee objects), "E" (slice/array element blocks),
// "MH"/"MV"/"MC" (map has/val/card), "G" (ghost fields)
func (vc *VC) heapKey(kind string, t types.Type) string {
	k := kind + "|" + typeKey(t)
	if _, ok := vc.heapNames[k]; !ok {
		vc.heapNames[k] = fmt.Sprintf("%s%d", kind, len(vc.heapNames))
		var s string
		switch kind {
		case "H":
			s = fmt.Sprintf("(Array Int %s)", vc.sortOf(t))
		case "E":
			s = fmt.Sprintf("(Array Int (Array Int %s))", vc.sortOf(t))
		case "MH":
			m := t.Underlying().(*types.Map)
			s = fmt.Sprintf("(Array Int (Array %s Bool))", vc.sortOf(m.Key()))
		case "MV":
			m := t.Underlying().(*types.Map)
			s = fmt.Sprintf("(Array Int (Array %s %s))", vc.sortOf(m.Key()), vc.sortOf(m.Elem()))
		case "MC":
			s = "(Array Int Int)"
		}
		vc.heapSorts[k] = s
		vc.emit(fmt.Sprintf("; heap %s = %s", vc.heapNames[k], strings.ReplaceAll(k, "\n", " ")))
	}
	return k
}

func (vc *VC) ghostHeapKey(name, sort string) string {
	k := "G|" + name
	if _, ok := vc.heapNames[k]; !ok {
		vc.heapNames[k] = fmt.Sprintf("G%d_%s", len(vc.heapNames), sanitize(name))
		vc.heapSorts[k] = sort
	}
	return k
}

func sortedKeys[V any](m map[string]V) []string {
	ks := make([]string, 0, len(m))
	for k := range m {
		ks = append(ks, k)
	}
	sort.Strings(ks)
	return ks
}
