#!/bin/bash
# Runs the repository's baseline test suite with the verif build tag OFF.
export GOFLAGS=-mod=mod GOPROXY=off GOSUMDB=off GOTOOLCHAIN=local
rc=0
for m in . collector/cmd/otelarrowcol collector/processor/concurrentbatchprocessor collector/processor/obfuscationprocessor; do
  if [ -f /repo/$m/go.mod ]; then
    (cd /repo/$m && go test -json -vet=off -count=1 -timeout 25m ./...) || rc=1
  fi
done
exit $rc
