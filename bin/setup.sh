#!/bin/bash
# Builds the VC generator offline (module cache only).
set -e
export GOFLAGS=-mod=mod GOPROXY=off GOSUMDB=off GOTOOLCHAIN=local
cd "$(dirname "$0")/../govc"
go build -o govc .
echo "govc built"
