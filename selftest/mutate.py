#!/usr/bin/env python3
"""Apply textual mutants (old -> new) to /repo files one at a time, run the
given property checks through govc, report whether each mutant is detected.
Usage: mutate.py <mutants.json> ;  entries: {"file":..., "old":..., "new":..., "props":[...], "expect":"detect"|"harmless"}"""
import json, subprocess, sys, os, re, shutil
muts = json.load(open(sys.argv[1]))
only = sys.argv[2] if len(sys.argv) > 2 else None
env = dict(os.environ, GOFLAGS="-mod=mod", GOPROXY="off", GOSUMDB="off", GOTOOLCHAIN="local")
if subprocess.run(["git", "-C", "/repo", "status", "--porcelain", "--untracked-files=all"], capture_output=True, text=True).stdout.replace(" M data/multivariate-metrics.json\n", "").replace(" M data/multivariate-metrics.pb\n", "").strip():
    print("REFUSING: /repo has uncommitted changes; commit them first"); sys.exit(2)
bad = 0
# the checks rewrite evidence files: keep the clean-tree evidence
shutil.rmtree("/tmp/evidence_backup", ignore_errors=True)
shutil.copytree("/verif/evidence", "/tmp/evidence_backup")
for i, m in enumerate(muts):
    if only and only not in m.get("name", ""):
        continue
    path = os.path.join("/repo", m["file"])
    src = open(path).read()
    if src.count(m["old"]) != 1:
        print("MUTANT %d %s: pattern occurs %d times (skipped)" % (i, m.get("name", ""), src.count(m["old"])))
        bad += 1
        continue
    open(path, "w").write(src.replace(m["old"], m["new"]))
    try:
        res = []
        for p in m["props"]:
            r = subprocess.run(["/verif/bin/check", p], env=env, capture_output=True, text=True)
            failed = [l for l in r.stdout.splitlines() if l.startswith("VIOLATION")]
            failed = [re.sub(r"replay=\S+ ", "", l) for l in failed]
            res.append((p, r.returncode, failed))
        detected = any(rc != 0 for _, rc, _ in res)
        exp = m.get("expect", "detect")
        ok = (detected and exp == "detect") or (not detected and exp == "harmless")
        if not ok:
            bad += 1
        print("%s MUTANT %d %s: %s" % ("ok  " if ok else "MISS", i, m.get("name", ""), "; ".join("%s rc=%d %s" % (p, rc, (f[0][:140] if f else "")) for p, rc, f in res)))
    finally:
        open(path, "w").write(src)
shutil.rmtree("/verif/evidence")
shutil.copytree("/tmp/evidence_backup", "/verif/evidence")
shutil.rmtree("/verif/replays", ignore_errors=True)
sys.exit(1 if bad else 0)
