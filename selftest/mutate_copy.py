#!/usr/bin/env python3
"""Like mutate.py, but never touches /repo: every mutant is applied to its own
scratch copy of /repo's current working tree (rsync without .git, removed
afterwards) and the property's units are run by govc with -dir on the copy.
Usage: mutate_copy.py <mutants.json> [name-substring] [-j N]
entries: {"name", "file", "old", "new", "props":[...], "expect":"detect"|"harmless"}"""
import json, subprocess, sys, os, shutil, tempfile
from concurrent.futures import ThreadPoolExecutor

VERIF = os.path.dirname(os.path.dirname(os.path.abspath(__file__)))
env = dict(os.environ, GOFLAGS="-mod=mod", GOPROXY="off", GOSUMDB="off", GOTOOLCHAIN="local")
args = sys.argv[1:]
jobs = 4
if "-j" in args:
    i = args.index("-j"); jobs = int(args[i + 1]); del args[i:i + 2]
muts = json.load(open(args[0]))
only = args[1] if len(args) > 1 else None
cfg = json.load(open(os.path.join(VERIF, "contracts", "props.json")))
known = set(k.get("obligation") for k in json.load(open(os.path.join(VERIF, "known_findings.json")))["findings"] if k.get("status") == "open")


def run(im):
    i, m = im
    copy = tempfile.mkdtemp(prefix="mutcopy-")
    try:
        subprocess.run(["rsync", "-a", "--exclude", ".git", "/repo/", copy + "/"], check=True)
        path = os.path.join(copy, m["file"])
        src = open(path).read()
        if src.count(m["old"]) != 1:
            return "SKIP MUTANT %d %s: pattern occurs %d times" % (i, m.get("name", ""), src.count(m["old"])), False
        open(path, "w").write(src.replace(m["old"], m["new"]))
        res = []
        for p in m["props"]:
            moddir = cfg.get(p, {}).get("dir", "/repo")
            moddir = copy + moddir[len("/repo"):]
            rp = os.path.join(copy, "result_%s.json" % p)
            cmd = [os.path.join(VERIF, "govc", "govc"), "check", "-prop", p, "-tier", "quick", "-result", rp, "-dir", moddir,
                   "-config", os.path.join(VERIF, "contracts", "props.json"), "-assumed", os.path.join(VERIF, "contracts", "assumed")]
            bp = os.path.join(VERIF, "contracts", "sweep_baseline", p + ".json")
            if os.path.exists(bp):
                cmd += ["-skip", bp]
            subprocess.run(cmd, env=env, capture_output=True, text=True)
            try:
                r = json.load(open(rp))
            except Exception:
                r = {"obligations": [], "errors": ["no result"]}
            failed = [o["name"] for o in r.get("obligations") or [] if o["status"] not in ("discharged", "undecided-baseline") and o["name"] not in known]
            failed += ["ERROR " + e[:120] for e in (r.get("errors") or [])]
            res.append((p, failed))
        detected = any(f for _, f in res)
        exp = m.get("expect", "detect")
        ok = (detected and exp == "detect") or (not detected and exp == "harmless")
        return "%s MUTANT %d %s: %s" % ("ok  " if ok else "MISS", i, m.get("name", ""), "; ".join("%s %d %s" % (p, len(f), f[0][:150] if f else "") for p, f in res)), ok
    finally:
        shutil.rmtree(copy, ignore_errors=True)


todo = [(i, m) for i, m in enumerate(muts) if not only or only in m.get("name", "")]
bad = 0
with ThreadPoolExecutor(jobs) as ex:
    for line, ok in ex.map(run, todo):
        print(line, flush=True)
        if not ok:
            bad += 1
sys.exit(1 if bad else 0)
