#!/usr/bin/env python3
"""Rewrites contracts/floors.json as 80 % of the obligation count of the last run of every check
(run bin/check_all on the unchanged tree first).  The floor is a vacuity guard: a run that generates
fewer obligations than the floor is reported as a violation."""
import json, os
V = os.path.dirname(os.path.dirname(os.path.abspath(__file__)))
fl = {}
for f in sorted(os.listdir(os.path.join(V, "evidence"))):
    if f.endswith(".json"):
        e = json.load(open(os.path.join(V, "evidence", f)))
        fl[f[:-5]] = int(e["coverage"]["obligations"] * 0.8)
json.dump(fl, open(os.path.join(V, "contracts", "floors.json"), "w"), indent=1)
print(fl)
