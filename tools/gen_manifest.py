#!/usr/bin/env python3
"""Regenerates MANIFEST.json from contracts/propmeta.json (claimed properties)
and contracts/not_applicable.json."""
import json, os, subprocess
V = os.path.dirname(os.path.dirname(os.path.abspath(__file__)))
meta = json.load(open(os.path.join(V, "contracts", "propmeta.json")))
na = json.load(open(os.path.join(V, "contracts", "not_applicable.json")))
try:
    hooks = subprocess.run(["git", "-C", "/repo", "log", "--format=%H %s"], capture_output=True, text=True).stdout.splitlines()
    hook_commits = [l.split()[0] for l in hooks if "verif hook" in l]
except Exception:
    hook_commits = []
checks = []
for pid in sorted(meta):
    m = meta[pid]
    checks.append({
        "property_id": pid,
        "quick_cmd": "/verif/bin/check %s --tier quick" % pid,
        "thorough_cmd": "/verif/bin/check %s --tier thorough" % pid,
        "evidence_file": "/verif/evidence/%s.json" % pid,
        "replay_cmd_template": "replay/run_replay.sh {path}",
        "engine": "govc",
        "level_claimed": {"category": m.get("level", "proof"), "text": m["level_text"], "design_ref": m.get("design_ref", "DESIGN.md section 3")},
        "level_note": m["level_note"],
        "technique": m.get("technique", "contract-based deductive verification: weakest-precondition style VCs generated from go/ssa of the real functions, contracts as //@ comments, discharged by z3/cvc5"),
    })
man = {
    "version": 1,
    "setup_cmd": "/verif/bin/setup.sh",
    "hooks": {
        "guard": "verif",
        "enable": "go build tag: -tags verif (contract files verif_contracts*.go are comment-only plus ghost spec functions; checks load /repo with the tag on)",
        "baseline_off_cmd": "/verif/bin/baseline_off.sh",
        "source_commits": hook_commits,
        "add_only": True,
    },
    "engines": [{"name": "govc", "path": "/verif/govc", "serves_properties": sorted(meta), "kind_free_text": "VC generator for Go written for this task: go/packages+go/ssa (NaiveForm) -> SMT-LIB2, contracts in //@ comment files, z3 5.1.0 / z3 4.8.12 / cvc5 1.0 back ends"}],
    "checks": checks,
    "not_applicable": [x for x in na if x["property_id"] not in meta],
    "notes": "See DESIGN.md. Known findings: /verif/known_findings.json. Seeded breaking changes: /verif/seeded/.",
}
json.dump(man, open(os.path.join(V, "MANIFEST.json"), "w"), indent=1)
print("MANIFEST.json: %d checks, %d not_applicable" % (len(checks), len(man["not_applicable"])))
