#!/bin/bash
# run_replay.sh <replay file written by bin/check>: re-runs the generated replay test named in it
# (exit 1 = the violation reproduces on the current /repo tree, 0 = it does not, 2 = no executable replay recorded)
f=$1
cat "$f" | head -12
t=$(grep -m1 '^replay test: ' "$f" | sed 's/^replay test: //')
[ -z "$t" ] && { echo "no executable replay recorded for this obligation (see the obligation and solver output above)"; exit 2; }
cmd=$(grep -m1 '^// re-run: ' "$t" | sed 's|^// re-run: ||')
[ -z "$cmd" ] && exit 2
echo "+ $cmd"
eval "$cmd" && exit 0 || exit 1
