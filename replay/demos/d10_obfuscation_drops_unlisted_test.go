package obfuscationprocessor

// Replay of finding D10 (C17): in encrypt_attributes (list) mode an attribute
// whose key is NOT listed must be kept unchanged; the processor never drops
// attributes.  Failed obligation: (*obfuscation).processAttrs$1/post:1@ret0
// (one entry is added to the copy for every attribute), counterexample
// encryptAll=false, key not in encryptAttributes.

import (
	"context"
	"testing"

	"github.com/cyrildever/feistel"
	"github.com/cyrildever/feistel/common/utils/hash"
	"go.opentelemetry.io/collector/pdata/pcommon"
	"go.uber.org/zap"
)

func TestReplayD10UnlistedAttributeKept(t *testing.T) {
	o := &obfuscation{
		logger:            zap.NewNop(),
		encrypt:           feistel.NewFPECipher(hash.SHA_256, "some-32-byte-long-key-to-be-safe", 10),
		encryptAttributes: map[string]struct{}{"secret": {}},
		encryptAll:        false,
	}
	m := pcommon.NewMap()
	m.PutStr("secret", "value-to-hide")
	m.PutStr("plain", "keep-me")
	m.PutInt("count", 42)
	o.processAttrs(context.Background(), m)
	if m.Len() != 3 {
		t.Fatalf("processAttrs dropped attributes: %d of 3 left: %v", m.Len(), m.AsRaw())
	}
	if v, ok := m.Get("plain"); !ok || v.Str() != "keep-me" {
		t.Fatalf("unlisted string attribute changed or dropped: %v", m.AsRaw())
	}
	if v, ok := m.Get("count"); !ok || v.Int() != 42 {
		t.Fatalf("unlisted int attribute changed or dropped: %v", m.AsRaw())
	}
	if _, ok := m.Get("secret"); ok {
		t.Fatalf("listed attribute was not obfuscated: %v", m.AsRaw())
	}
}
