package arrow_record

// Replay of finding D5 (C08, open known finding): a batch is valid OTLP
// whatever its size, but the 65 536th span of a batch (NextSpanID) and the
// 65 536th non-empty attribute map (Attributes16Accumulator.AppendWithID)
// make the producer panic instead of returning an error.  Failed obligations:
// arrow.(*RelatedData).NextSpanID/explicit-panic#0 and
// arrow.(*Attributes16Accumulator).AppendWithID/explicit-panic#0.

import (
	"testing"

	"go.opentelemetry.io/collector/pdata/ptrace"
)

func replayD5Encode(t *testing.T, spans int, withAttr bool, withEvent ...bool) (err error, panicked interface{}) {
	td := ptrace.NewTraces()
	ss := td.ResourceSpans().AppendEmpty().ScopeSpans().AppendEmpty()
	ss.Spans().EnsureCapacity(spans)
	for i := 0; i < spans; i++ {
		s := ss.Spans().AppendEmpty()
		s.SetName("s")
		if withAttr {
			s.Attributes().PutInt("i", int64(i%7))
		}
		if len(withEvent) > 0 && withEvent[0] {
			s.Events().AppendEmpty().SetName("e")
		}
	}
	producer := NewProducer()
	defer func() {
		panicked = recover()
		_ = producer.Close()
	}()
	_, err = producer.BatchArrowRecordsFromTraces(td)
	return err, nil
}

func TestReplayD5SpanIDSpace(t *testing.T) {
	if _, p := replayD5Encode(t, 65536, false, true); p != nil {
		t.Fatalf("65536 spans with one event each in one batch: producer panicked: %v", p)
	}
}

func TestReplayD5AttributeGroupSpace(t *testing.T) {
	if _, p := replayD5Encode(t, 65535, true); p != nil {
		t.Logf("65535 spans with attributes: panic %v", p)
	}
	if _, p := replayD5Encode(t, 65536, true); p != nil {
		t.Fatalf("65536 spans with one attribute each: producer panicked: %v", p)
	}
}
