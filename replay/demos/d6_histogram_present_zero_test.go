package arrow_record

// Replay of finding D6 (C03): a histogram / exponential histogram data point
// whose sum, min or max is PRESENT and equal to zero must decode with
// HasSum/HasMin/HasMax still true.

import (
	"testing"

	"go.opentelemetry.io/collector/pdata/pmetric"
)

func TestReplayD6HistogramPresentZero(t *testing.T) {
	md := pmetric.NewMetrics()
	sm := md.ResourceMetrics().AppendEmpty().ScopeMetrics().AppendEmpty()
	h := sm.Metrics().AppendEmpty()
	h.SetName("h")
	hd := h.SetEmptyHistogram().DataPoints().AppendEmpty()
	hd.SetCount(1)
	hd.SetSum(0)
	hd.SetMin(0)
	hd.SetMax(0)
	hd.BucketCounts().FromRaw([]uint64{1})
	e := sm.Metrics().AppendEmpty()
	e.SetName("e")
	ed := e.SetEmptyExponentialHistogram().DataPoints().AppendEmpty()
	ed.SetCount(1)
	ed.SetSum(0)
	ed.SetMin(0)
	ed.SetMax(0)
	// a second point with non-zero values so that the optional columns exist
	hd2 := h.Histogram().DataPoints().AppendEmpty()
	hd2.SetCount(2)
	hd2.SetSum(3)
	hd2.SetMin(1)
	hd2.SetMax(2)
	hd2.BucketCounts().FromRaw([]uint64{2})
	ed2 := e.ExponentialHistogram().DataPoints().AppendEmpty()
	ed2.SetCount(2)
	ed2.SetSum(3)
	ed2.SetMin(1)
	ed2.SetMax(2)

	p := NewProducer()
	defer p.Close()
	c := NewConsumer()
	defer c.Close()
	bar, err := p.BatchArrowRecordsFromMetrics(md)
	if err != nil {
		t.Fatal(err)
	}
	out, err := c.MetricsFrom(bar)
	if err != nil || len(out) != 1 {
		t.Fatalf("decode: %v (%d)", err, len(out))
	}
	ms := out[0].ResourceMetrics().At(0).ScopeMetrics().At(0).Metrics()
	for i := 0; i < ms.Len(); i++ {
		m := ms.At(i)
		switch m.Type() {
		case pmetric.MetricTypeHistogram:
			for j := 0; j < m.Histogram().DataPoints().Len(); j++ {
				dp := m.Histogram().DataPoints().At(j)
				if !dp.HasSum() || !dp.HasMin() || !dp.HasMax() {
					t.Errorf("histogram point count=%d lost presence: sum=%v min=%v max=%v", dp.Count(), dp.HasSum(), dp.HasMin(), dp.HasMax())
				}
			}
		case pmetric.MetricTypeExponentialHistogram:
			for j := 0; j < m.ExponentialHistogram().DataPoints().Len(); j++ {
				dp := m.ExponentialHistogram().DataPoints().At(j)
				if !dp.HasSum() || !dp.HasMin() || !dp.HasMax() {
					t.Errorf("exp histogram point count=%d lost presence: sum=%v min=%v max=%v", dp.Count(), dp.HasSum(), dp.HasMin(), dp.HasMax())
				}
			}
		}
	}
}
