package arrow_record

// Replay of finding D7 (C01-C03, fixed): the identity text by which the encoder
// recognises "the same resource / scope again" was built by writing strings raw,
// so {k: Str "1"} and {k: Int 1}, {k: Bytes 0x10} and {k: Int 10}, or
// {a: "1,b:2"} and {a: "1", b: "2"} got the same text: two different resources
// of one batch were merged and the second decoded with the attributes of the
// first.  Fixed: keys, string values, names, versions and schema URLs are
// quoted (strconv.Quote) and byte strings carry a tag.

import (
	"fmt"
	"sort"
	"testing"

	"go.opentelemetry.io/collector/pdata/pcommon"
	"go.opentelemetry.io/collector/pdata/ptrace"
)

func d7RoundTrip(t *testing.T, fill ...func(pcommon.Map)) {
	td := ptrace.NewTraces()
	for i, f := range fill {
		rs := td.ResourceSpans().AppendEmpty()
		f(rs.Resource().Attributes())
		s := rs.ScopeSpans().AppendEmpty().Spans().AppendEmpty()
		s.SetName(fmt.Sprintf("span-%d", i))
	}
	producer := NewProducer()
	defer producer.Close()
	consumer := NewConsumer()
	defer consumer.Close()
	bar, err := producer.BatchArrowRecordsFromTraces(td)
	if err != nil {
		t.Fatal(err)
	}
	out, err := consumer.TracesFrom(bar)
	if err != nil || len(out) != 1 {
		t.Fatalf("decode: %v %d", err, len(out))
	}
	describe := func(m pcommon.Map) string {
		var parts []string
		m.Range(func(k string, v pcommon.Value) bool {
			parts = append(parts, fmt.Sprintf("%q=%s:%s", k, v.Type(), v.AsString()))
			return true
		})
		sort.Strings(parts)
		return fmt.Sprint(parts)
	}
	want := map[string]string{}
	for i := 0; i < td.ResourceSpans().Len(); i++ {
		rs := td.ResourceSpans().At(i)
		want[rs.ScopeSpans().At(0).Spans().At(0).Name()] = describe(rs.Resource().Attributes())
	}
	got := map[string]string{}
	for i := 0; i < out[0].ResourceSpans().Len(); i++ {
		rs := out[0].ResourceSpans().At(i)
		for j := 0; j < rs.ScopeSpans().Len(); j++ {
			for k := 0; k < rs.ScopeSpans().At(j).Spans().Len(); k++ {
				got[rs.ScopeSpans().At(j).Spans().At(k).Name()] = describe(rs.Resource().Attributes())
			}
		}
	}
	for name, w := range want {
		if got[name] != w {
			t.Errorf("%s decoded under resource %s, want %s", name, got[name], w)
		}
	}
}

func TestReplayD7SameKeyDifferentValueType(t *testing.T) {
	d7RoundTrip(t,
		func(m pcommon.Map) { m.PutStr("k", "1") },
		func(m pcommon.Map) { m.PutInt("k", 1) })
}

func TestReplayD7BytesVersusInt(t *testing.T) {
	d7RoundTrip(t,
		func(m pcommon.Map) { m.PutEmptyBytes("k").FromRaw([]byte{0x10}) },
		func(m pcommon.Map) { m.PutInt("k", 10) })
}

func TestReplayD7EmbeddedDelimiters(t *testing.T) {
	d7RoundTrip(t,
		func(m pcommon.Map) { m.PutStr("a", "1,b:2") },
		func(m pcommon.Map) { m.PutStr("a", "1"); m.PutStr("b", "2") })
}
