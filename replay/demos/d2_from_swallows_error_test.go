package arrow_record

// Replay of finding D2 (C07): obligations LogsFrom/assert@return#3 and
// TracesFrom/assert@return#3 ("an error of the related-data scan is never
// swallowed").  A valid batch is produced, then one related payload is
// relabelled to a type the decoder of that signal rejects.  The consumer must
// return an error or the telemetry; it returned ([], nil): success while the
// main record, which was present, is discarded.

import (
	"testing"

	"go.opentelemetry.io/collector/pdata/plog"
	"go.opentelemetry.io/collector/pdata/ptrace"

	colarspb "github.com/open-telemetry/otel-arrow/api/experimental/arrow/v1"
)

func TestReplayD2LogsFromSwallowsError(t *testing.T) {
	ld := plog.NewLogs()
	lr := ld.ResourceLogs().AppendEmpty().ScopeLogs().AppendEmpty().LogRecords().AppendEmpty()
	lr.Body().SetStr("hello")
	lr.Attributes().PutStr("k", "v")
	p := NewProducer()
	defer p.Close()
	bar, err := p.BatchArrowRecordsFromLogs(ld)
	if err != nil {
		t.Fatal(err)
	}
	relabelled := false
	for _, pl := range bar.ArrowPayloads {
		if pl.Type == colarspb.ArrowPayloadType_LOG_ATTRS {
			pl.Type = colarspb.ArrowPayloadType_SPAN_EVENTS
			relabelled = true
		}
	}
	if !relabelled {
		t.Fatal("no LOG_ATTRS payload to relabel")
	}
	c := NewConsumer()
	defer c.Close()
	res, err := c.LogsFrom(bar)
	if err == nil && len(res) == 0 {
		t.Fatalf("LogsFrom returned success with no logs although a LOGS record was present")
	}
}

func TestReplayD2TracesFromSwallowsError(t *testing.T) {
	td := ptrace.NewTraces()
	sp := td.ResourceSpans().AppendEmpty().ScopeSpans().AppendEmpty().Spans().AppendEmpty()
	sp.SetName("s")
	sp.Attributes().PutStr("k", "v")
	p := NewProducer()
	defer p.Close()
	bar, err := p.BatchArrowRecordsFromTraces(td)
	if err != nil {
		t.Fatal(err)
	}
	relabelled := false
	for _, pl := range bar.ArrowPayloads {
		if pl.Type == colarspb.ArrowPayloadType_SPAN_ATTRS {
			pl.Type = colarspb.ArrowPayloadType_LOG_ATTRS
			relabelled = true
		}
	}
	if !relabelled {
		t.Fatal("no SPAN_ATTRS payload to relabel")
	}
	c := NewConsumer()
	defer c.Close()
	res, err := c.TracesFrom(bar)
	if err == nil && len(res) == 0 {
		t.Fatalf("TracesFrom returned success with no traces although a SPANS record was present")
	}
}
