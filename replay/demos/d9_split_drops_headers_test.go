package concurrentbatchprocessor

// Replay of finding D9 (C05): when a batch is split, the fragment that is
// split off must keep the schema URLs of the resource and scope it was taken
// from, and a split metric must keep its metadata.  Failed obligations:
// splitTraces$1 / splitTraces$1$1 / splitLogs$1 / splitLogs$1$1 /
// splitMetrics$1 / splitMetrics$1$1 /assert@return (implies(made, urlSet)) and
// splitMetric/assert@return (copied).

import (
	"testing"

	"go.opentelemetry.io/collector/pdata/plog"
	"go.opentelemetry.io/collector/pdata/pmetric"
	"go.opentelemetry.io/collector/pdata/ptrace"
)

func TestReplayD9SplitTracesKeepsSchemaURLs(t *testing.T) {
	td := ptrace.NewTraces()
	rs := td.ResourceSpans().AppendEmpty()
	rs.SetSchemaUrl("res-url")
	ss := rs.ScopeSpans().AppendEmpty()
	ss.SetSchemaUrl("scope-url")
	for i := 0; i < 4; i++ {
		ss.Spans().AppendEmpty().SetName("s")
	}
	frag := splitTraces(2, td)
	if frag.SpanCount() != 2 || td.SpanCount() != 2 {
		t.Fatalf("split sizes %d / %d", frag.SpanCount(), td.SpanCount())
	}
	if got := frag.ResourceSpans().At(0).SchemaUrl(); got != "res-url" {
		t.Fatalf("fragment resource schema URL %q, want res-url", got)
	}
	if got := frag.ResourceSpans().At(0).ScopeSpans().At(0).SchemaUrl(); got != "scope-url" {
		t.Fatalf("fragment scope schema URL %q, want scope-url", got)
	}
}

func TestReplayD9SplitLogsKeepsSchemaURLs(t *testing.T) {
	ld := plog.NewLogs()
	rl := ld.ResourceLogs().AppendEmpty()
	rl.SetSchemaUrl("res-url")
	sl := rl.ScopeLogs().AppendEmpty()
	sl.SetSchemaUrl("scope-url")
	for i := 0; i < 4; i++ {
		sl.LogRecords().AppendEmpty().Body().SetStr("l")
	}
	frag := splitLogs(2, ld)
	if got := frag.ResourceLogs().At(0).SchemaUrl(); got != "res-url" {
		t.Fatalf("fragment resource schema URL %q, want res-url", got)
	}
	if got := frag.ResourceLogs().At(0).ScopeLogs().At(0).SchemaUrl(); got != "scope-url" {
		t.Fatalf("fragment scope schema URL %q, want scope-url", got)
	}
}

func TestReplayD9SplitMetricsKeepsSchemaURLsAndMetadata(t *testing.T) {
	md := pmetric.NewMetrics()
	rm := md.ResourceMetrics().AppendEmpty()
	rm.SetSchemaUrl("res-url")
	sm := rm.ScopeMetrics().AppendEmpty()
	sm.SetSchemaUrl("scope-url")
	m := sm.Metrics().AppendEmpty()
	m.SetName("g")
	m.Metadata().PutStr("origin", "test")
	g := m.SetEmptyGauge()
	for i := 0; i < 4; i++ {
		g.DataPoints().AppendEmpty().SetIntValue(int64(i))
	}
	frag := splitMetrics(2, md)
	if got := frag.ResourceMetrics().At(0).SchemaUrl(); got != "res-url" {
		t.Fatalf("fragment resource schema URL %q, want res-url", got)
	}
	if got := frag.ResourceMetrics().At(0).ScopeMetrics().At(0).SchemaUrl(); got != "scope-url" {
		t.Fatalf("fragment scope schema URL %q, want scope-url", got)
	}
	fm := frag.ResourceMetrics().At(0).ScopeMetrics().At(0).Metrics().At(0)
	if v, ok := fm.Metadata().Get("origin"); !ok || v.Str() != "test" {
		t.Fatalf("split metric lost its metadata: %v", fm.Metadata().AsRaw())
	}
}
