package arrow_record

// Replay of findings D11-D13 (C15): on an encode error the producer must still
// release every Arrow record it built or was handed, so that after Close the
// configured allocator is back to zero.
//
//   D13 (*Producer).Produce/assert@return#1: a failing record message made
//       Produce return before the records of the remaining messages were
//       released.
//   D11 (*RelatedRecordsManager).BuildRecordMessages/assert@return: when the
//       k-th related builder failed, the records already built were dropped.
//   D12 (*Producer).BatchArrowRecordsFrom{Traces,Logs,Metrics}/assert@return:
//       the main record was not released when building the related records
//       failed.

import (
	"testing"

	"github.com/apache/arrow-go/v18/arrow"
	"github.com/apache/arrow-go/v18/arrow/array"
	"github.com/apache/arrow-go/v18/arrow/memory"
	"go.opentelemetry.io/collector/pdata/plog"

	colarspb "github.com/open-telemetry/otel-arrow/api/experimental/arrow/v1"
	"github.com/open-telemetry/otel-arrow/pkg/config"
	"github.com/open-telemetry/otel-arrow/pkg/record_message"
)

func replayRecord(pool memory.Allocator, field string, n int) arrow.Record {
	schema := arrow.NewSchema([]arrow.Field{{Name: field, Type: arrow.PrimitiveTypes.Int64}}, nil)
	b := array.NewRecordBuilder(pool, schema)
	defer b.Release()
	for i := 0; i < n; i++ {
		b.Field(0).(*array.Int64Builder).Append(int64(i))
	}
	return b.NewRecord()
}

// D13: the second call's first message reuses schema id "s" with another
// schema, so the IPC writer refuses it; the second message of that call must
// still be released.
func TestReplayD13ProduceReleasesRemainingRecords(t *testing.T) {
	pool := memory.NewCheckedAllocator(memory.NewGoAllocator())
	defer pool.AssertSize(t, 0)
	p := NewProducerWithOptions(config.WithAllocator(pool))
	pt := colarspb.ArrowPayloadType_LOG_ATTRS

	if _, err := p.Produce([]*record_message.RecordMessage{
		record_message.NewRelatedDataMessage("s", replayRecord(pool, "a", 4), pt),
	}); err != nil {
		t.Fatalf("first batch: %v", err)
	}
	_, err := p.Produce([]*record_message.RecordMessage{
		record_message.NewRelatedDataMessage("s", replayRecord(pool, "b", 4), pt),
		record_message.NewRelatedDataMessage("t", replayRecord(pool, "a", 1000), pt),
	})
	if err == nil {
		t.Fatalf("expected the inconsistent schema to be refused")
	}
	if err := p.Close(); err != nil {
		t.Fatalf("close: %v", err)
	}
}

// D11 + D12: the log-record attribute builder is made to fail (it has been
// released), after the resource attribute builder has built its record.
func TestReplayD11D12RelatedBuilderFailure(t *testing.T) {
	pool := memory.NewCheckedAllocator(memory.NewGoAllocator())
	defer pool.AssertSize(t, 0)
	p := NewProducerWithOptions(config.WithAllocator(pool))

	logs := plog.NewLogs()
	rl := logs.ResourceLogs().AppendEmpty()
	rl.Resource().Attributes().PutStr("service.name", "checkout")
	lr := rl.ScopeLogs().AppendEmpty().LogRecords().AppendEmpty()
	lr.Body().SetStr("hello")
	lr.Attributes().PutStr("k", "v")

	// fault: one related builder can no longer build
	p.LogsBuilder().RelatedData().AttrsBuilders().LogRecord().Release()

	if _, err := p.BatchArrowRecordsFromLogs(logs); err == nil {
		t.Fatalf("expected an error from the released related builder")
	}
	if err := p.Close(); err != nil {
		t.Fatalf("close: %v", err)
	}
}
