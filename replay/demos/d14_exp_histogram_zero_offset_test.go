package arrow_record

// Replay of finding D14 (C07 / C03): an exponential histogram whose bucket
// offset is 0 (so the optional offset column is never created) while its
// bucket list is not empty - and the converse, a non-zero offset with an empty
// bucket list - must decode without crashing the consumer and keep offset and
// buckets.  Failed obligation:
// otlp.AppendUnivariateEHistogramDataPointBucketsInto/assert@before:call:Struct.Field
// (the column index handed to Field is a valid index).

import (
	"testing"

	"go.opentelemetry.io/collector/pdata/pmetric"
)

func replayD14RoundTrip(t *testing.T, offset int32, buckets []uint64) {
	md := pmetric.NewMetrics()
	m := md.ResourceMetrics().AppendEmpty().ScopeMetrics().AppendEmpty().Metrics().AppendEmpty()
	m.SetName("eh")
	dp := m.SetEmptyExponentialHistogram().DataPoints().AppendEmpty()
	dp.SetCount(3)
	dp.Positive().SetOffset(offset)
	dp.Positive().BucketCounts().FromRaw(buckets)

	producer := NewProducer()
	defer producer.Close()
	consumer := NewConsumer()
	defer consumer.Close()
	bar, err := producer.BatchArrowRecordsFromMetrics(md)
	if err != nil {
		t.Fatalf("encode: %v", err)
	}
	out, err := consumer.MetricsFrom(bar)
	if err != nil || len(out) != 1 {
		t.Fatalf("decode: %v (%d documents)", err, len(out))
	}
	got := out[0].ResourceMetrics().At(0).ScopeMetrics().At(0).Metrics().At(0).ExponentialHistogram().DataPoints().At(0).Positive()
	if got.Offset() != offset || got.BucketCounts().Len() != len(buckets) {
		t.Fatalf("offset %d buckets %v, want offset %d buckets %v", got.Offset(), got.BucketCounts().AsRaw(), offset, buckets)
	}
}

func TestReplayD14ZeroOffsetWithBuckets(t *testing.T) { replayD14RoundTrip(t, 0, []uint64{1, 2}) }
func TestReplayD14OffsetWithoutBuckets(t *testing.T)  { replayD14RoundTrip(t, 7, nil) }
