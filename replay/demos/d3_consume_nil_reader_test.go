package arrow_record

// Replay of finding D3 (C07): obligation Consume/pre@Reader.Release#0:0.
// Batch 1 carries a LOGS payload whose bytes are empty: ipc.NewReader fails and
// the stream consumer stays registered with a nil ipcReader.  Batch 2 carries
// the same payload type under another schema id: the cleanup loop calls
// sc.ipcReader.Release() on the nil reader.  The consumer must return an error
// for both batches, never panic.

import (
	"testing"

	colarspb "github.com/open-telemetry/otel-arrow/api/experimental/arrow/v1"
)

func TestReplayD3ConsumeNilReader(t *testing.T) {
	c := NewConsumer()
	defer func() {
		if r := recover(); r != nil {
			t.Fatalf("consumer panicked: %v", r)
		}
	}()
	b1 := &colarspb.BatchArrowRecords{BatchId: 0, ArrowPayloads: []*colarspb.ArrowPayload{{SchemaId: "s1", Type: colarspb.ArrowPayloadType_LOGS, Record: []byte{}}}}
	if _, err := c.Consume(b1); err == nil {
		t.Fatalf("expected an error for an empty payload")
	}
	b2 := &colarspb.BatchArrowRecords{BatchId: 1, ArrowPayloads: []*colarspb.ArrowPayload{{SchemaId: "s2", Type: colarspb.ArrowPayloadType_LOGS, Record: []byte{}}}}
	if _, err := c.Consume(b2); err == nil {
		t.Fatalf("expected an error for an empty payload")
	}
}
