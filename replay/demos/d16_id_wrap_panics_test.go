package arrow_record

// Replay of finding D16 (C08, fixed): TracesBuilder.Append counted the spans that
// carry related data in a uint16; with more than 65 536 of them and no single
// accumulator at its limit (here: 40 000 spans with attributes only and 40 000
// with events only) the counter wrapped to 0 and Uint16DeltaBuilder.Append
// panicked with "value is less than previous value".  The same for the metric
// id (65 537 metrics).  Failed obligation on the unfixed tree:
// arrow.(*TracesBuilder).Append/assert@before:call:Uint16DeltaBuilder.Append#0
// (ids never wrap).  Fixed: the batch is refused with ErrTooManyGroups.

import (
	"testing"

	"go.opentelemetry.io/collector/pdata/pmetric"
	"go.opentelemetry.io/collector/pdata/ptrace"
)

func TestReplayD16SpanIDWrap(t *testing.T) {
	td := ptrace.NewTraces()
	ss := td.ResourceSpans().AppendEmpty().ScopeSpans().AppendEmpty()
	for i := 0; i < 80000; i++ {
		s := ss.Spans().AppendEmpty()
		s.SetName("s")
		if i%2 == 0 {
			s.Attributes().PutInt("i", int64(i%7))
		} else {
			s.Events().AppendEmpty().SetName("e")
		}
	}
	producer := NewProducer()
	var panicked interface{}
	var err error
	func() {
		defer func() { panicked = recover() }()
		_, err = producer.BatchArrowRecordsFromTraces(td)
	}()
	t.Logf("err=%v panicked=%v", err, panicked)
	if panicked != nil {
		t.Fatalf("panic: %v", panicked)
	}
	if err == nil {
		t.Fatalf("80000 related-bearing spans accepted without error: span ids wrap at 65536")
	}
}

func TestReplayD16MetricIDWrap(t *testing.T) {
	md := pmetric.NewMetrics()
	sm := md.ResourceMetrics().AppendEmpty().ScopeMetrics().AppendEmpty()
	for i := 0; i < 65537; i++ {
		m := sm.Metrics().AppendEmpty()
		m.SetName("m")
		m.SetEmptyGauge().DataPoints().AppendEmpty().SetIntValue(int64(i))
	}
	producer := NewProducer()
	var panicked interface{}
	var err error
	func() {
		defer func() { panicked = recover() }()
		_, err = producer.BatchArrowRecordsFromMetrics(md)
	}()
	if panicked != nil {
		t.Fatalf("panic: %v", panicked)
	}
	if err == nil {
		t.Fatalf("65537 metrics accepted without error: metric ids wrap at 65536")
	}
}
