package arrow_record

// Replay of finding D4 (C08 / C03): a histogram whose bucket counts (or
// explicit bounds) are all zero, seen before that list column exists, must be
// encoded (no crash) and decode to the same bucket list.  Failed obligation:
// builder.(*ListBuilder).Reserve/post (a list column that is requested comes
// with its element column).

import (
	"testing"

	"go.opentelemetry.io/collector/pdata/pmetric"
)

func TestReplayD4AllZeroBucketList(t *testing.T) {
	md := pmetric.NewMetrics()
	m := md.ResourceMetrics().AppendEmpty().ScopeMetrics().AppendEmpty().Metrics().AppendEmpty()
	m.SetName("h")
	dp := m.SetEmptyHistogram().DataPoints().AppendEmpty()
	dp.SetCount(0)
	dp.BucketCounts().FromRaw([]uint64{0, 0, 0})
	dp.ExplicitBounds().FromRaw([]float64{0, 0})

	producer := NewProducer()
	defer producer.Close()
	consumer := NewConsumer()
	defer consumer.Close()
	bar, err := producer.BatchArrowRecordsFromMetrics(md)
	if err != nil {
		t.Fatalf("encode: %v", err)
	}
	out, err := consumer.MetricsFrom(bar)
	if err != nil || len(out) != 1 {
		t.Fatalf("decode: %v (%d documents)", err, len(out))
	}
	got := out[0].ResourceMetrics().At(0).ScopeMetrics().At(0).Metrics().At(0).Histogram().DataPoints().At(0)
	if got.BucketCounts().Len() != 3 || got.ExplicitBounds().Len() != 2 {
		t.Fatalf("bucket counts %v, explicit bounds %v: the all-zero lists were lost", got.BucketCounts().AsRaw(), got.ExplicitBounds().AsRaw())
	}
}
