package arrow_record

// Replay of finding D17 (C08, fixed): a batch that is refused while its rows are
// being appended (here: 70 000 spans with attributes, refused with ErrTooManyGroups
// at the 65 536th) left the rows appended so far in the main record builder; the
// next, perfectly ordinary batch of the same producer then panicked in the
// delta-encoded id column ("value is less than previous value").  C08: "it never
// panics ... whatever the stream carried before" - a refused batch is part of the
// history.  Fixed: the rows of a refused batch are discarded.

import (
	"testing"

	"go.opentelemetry.io/collector/pdata/ptrace"
)

func d17Traces(n int) ptrace.Traces {
	td := ptrace.NewTraces()
	ss := td.ResourceSpans().AppendEmpty().ScopeSpans().AppendEmpty()
	for i := 0; i < n; i++ {
		s := ss.Spans().AppendEmpty()
		s.SetName("s")
		s.Attributes().PutInt("i", int64(i%7))
	}
	return td
}

func TestReplayD17BatchAfterRefusedBatch(t *testing.T) {
	producer := NewProducer()
	defer producer.Close()
	consumer := NewConsumer()
	defer consumer.Close()
	if _, err := producer.BatchArrowRecordsFromTraces(d17Traces(10)); err != nil {
		t.Fatal(err)
	}
	if _, err := producer.BatchArrowRecordsFromTraces(d17Traces(70000)); err == nil {
		t.Fatal("70000 spans with attributes accepted")
	}
	var panicked interface{}
	var err error
	func() {
		defer func() { panicked = recover() }()
		_, err = producer.BatchArrowRecordsFromTraces(d17Traces(10))
	}()
	if panicked != nil {
		t.Fatalf("the batch after a refused batch panicked: %v", panicked)
	}
	if err != nil {
		t.Fatalf("the batch after a refused batch failed: %v", err)
	}
}
