package arrow_record

// Probe for a suspected defect (C07): the signal decoders release every record
// of the batch (deferred loop in RelatedDataFrom) and read the main record
// afterwards; that only works while the IPC reader still holds its own
// reference.  A batch that carries the main payload twice on one stream - the
// copy relabelled as a related payload the decoder accepts - makes the reader
// drop its reference to the first record before it is read.  The consumer must
// reject the batch or decode it, never crash.

import (
	"testing"

	"go.opentelemetry.io/collector/pdata/ptrace"
	"google.golang.org/protobuf/proto"

	colarspb "github.com/open-telemetry/otel-arrow/api/experimental/arrow/v1"
)

func replayD15Traces(n int) ptrace.Traces {
	td := ptrace.NewTraces()
	ss := td.ResourceSpans().AppendEmpty().ScopeSpans().AppendEmpty()
	for i := 0; i < n; i++ {
		s := ss.Spans().AppendEmpty()
		s.SetName("s")
		s.SetTraceID([16]byte{1, 2, 3, byte(i)})
		s.SetSpanID([8]byte{1, byte(i)})
	}
	return td
}

func TestProbeD15DuplicatedMainRelabelled(t *testing.T) {
	for _, relabel := range []colarspb.ArrowPayloadType{colarspb.ArrowPayloadType_SPAN_EVENTS, colarspb.ArrowPayloadType_SPAN_LINKS, colarspb.ArrowPayloadType_SPAN_ATTRS} {
		producer := NewProducer()
		consumer := NewConsumer()
		// batch 1: opens the stream (schema message)
		bar, err := producer.BatchArrowRecordsFromTraces(replayD15Traces(3))
		if err != nil {
			t.Fatal(err)
		}
		if _, err := consumer.TracesFrom(bar); err != nil {
			t.Fatal(err)
		}
		// batch 2: record batch only; duplicate the main payload and relabel the copy
		bar, err = producer.BatchArrowRecordsFromTraces(replayD15Traces(3))
		if err != nil {
			t.Fatal(err)
		}
		main := bar.ArrowPayloads[0]
		cp := proto.Clone(main).(*colarspb.ArrowPayload)
		cp.Type = relabel
		bar.ArrowPayloads = append(bar.ArrowPayloads, cp)
		func() {
			defer func() {
				if r := recover(); r != nil {
					t.Errorf("relabel as %v: consumer panicked: %v", relabel, r)
				}
			}()
			out, err := consumer.TracesFrom(bar)
			t.Logf("relabel as %v: err=%v, %d documents", relabel, err, len(out))
			if err == nil && (len(out) != 1 || out[0].SpanCount() != 3) {
				t.Errorf("relabel as %v: accepted with %d documents", relabel, len(out))
			}
		}()
		_ = producer.Close()
		consumer.Close()
	}
}
