package arrow_record

// Replay of finding D8 (C04): obligations otlp.pairAttrs16ParentIdKeyValue/post:0,
// otlp.pairAttrs16Nothing/post:0, otlp.pairAttrs16TypeKeyParentIdValue/post:0 and
// the 32-bit counterparts.  The consumer always decodes attribute parent ids
// with the delta-group rule; producers created with a non-default
// OrderAttrs16By / OrderAttrs32By option encode them differently, so
// attributes come back attached to the wrong spans (or are lost).

import (
	"fmt"
	"sort"
	"testing"

	"go.opentelemetry.io/collector/pdata/ptrace"

	cfg "github.com/open-telemetry/otel-arrow/pkg/config"
)

var d8Single bool

func d8Traces() ptrace.Traces {
	td := ptrace.NewTraces()
	ss := td.ResourceSpans().AppendEmpty().ScopeSpans().AppendEmpty().Spans()
	for i := 0; i < 4; i++ {
		sp := ss.AppendEmpty()
		sp.SetName(fmt.Sprintf("span-%d", i))
		sp.Attributes().PutStr("k", "v")
		if !d8Single {
			sp.Attributes().PutInt("n", int64(i%2))
		}
		ev := sp.Events().AppendEmpty()
		ev.SetName("e")
		ev.Attributes().PutStr("ek", "ev")
		if !d8Single {
			ev.Attributes().PutInt("en", int64(i%2))
		}
	}
	return td
}

func d8Sig(td ptrace.Traces) []string {
	var out []string
	for i := 0; i < td.ResourceSpans().Len(); i++ {
		rs := td.ResourceSpans().At(i)
		for j := 0; j < rs.ScopeSpans().Len(); j++ {
			spans := rs.ScopeSpans().At(j).Spans()
			for k := 0; k < spans.Len(); k++ {
				sp := spans.At(k)
				s := sp.Name() + fmt.Sprint(sp.Attributes().AsRaw())
				for e := 0; e < sp.Events().Len(); e++ {
					s += "|" + fmt.Sprint(sp.Events().At(e).Attributes().AsRaw())
				}
				out = append(out, s)
			}
		}
	}
	sort.Strings(out)
	return out
}

func d8RoundTrip(t *testing.T, name string, opts ...cfg.Option) {
	t.Run(name, func(t *testing.T) {
		p := NewProducerWithOptions(opts...)
		defer p.Close()
		c := NewConsumer()
		defer c.Close()
		in := d8Traces()
		want := d8Sig(in)
		bar, err := p.BatchArrowRecordsFromTraces(in)
		if err != nil {
			t.Fatal(err)
		}
		out, err := c.TracesFrom(bar)
		if err != nil {
			t.Fatal(err)
		}
		if len(out) != 1 {
			t.Fatalf("decoded %d traces", len(out))
		}
		got := d8Sig(out[0])
		if fmt.Sprint(got) != fmt.Sprint(want) {
			t.Fatalf("decoded telemetry differs from the encoded one:\n want %v\n got  %v", want, got)
		}
	})
}

func TestReplayD8AttrSorters(t *testing.T) {
	d8RoundTrip(t, "default")
	d8RoundTrip(t, "attrs16-ParentIdKeyValue", cfg.WithOrderAttrs16By(cfg.OrderAttrs16ByParentIdKeyValue))
	d8Single = true // one attribute per span: consecutive rows with the same key and an Equal value
	d8RoundTrip(t, "attrs16-Nothing", cfg.WithOrderAttrs16By(cfg.OrderAttrs16ByNothing))
	d8RoundTrip(t, "attrs32-Nothing", cfg.WithOrderAttrs32By(cfg.OrderAttrs32ByNothing))
	d8Single = false
	d8RoundTrip(t, "attrs16-TypeKeyParentIdValue", cfg.WithOrderAttrs16By(cfg.OrderAttrs16ByTypeKeyParentIdValue))
	d8RoundTrip(t, "attrs32-TypeParentIdKeyValue", cfg.WithOrderAttrs32By(cfg.OrderAttrs32ByTypeParentIdKeyValue))
	d8RoundTrip(t, "attrs32-TypeKeyParentIdValue", cfg.WithOrderAttrs32By(cfg.OrderAttrs32ByTypeKeyParentIdValue))
}
