package arrow_record

// Replay of finding D18 (C08, fixed): one valid logs batch whose severity_text
// takes 70 000 distinct values over 250 000 records (more values than the
// largest dictionary index allows, but a distinct / total ratio below the
// reset threshold) made the dictionary request a *reset* on every attempt -
// the rebuilt batch overflowed the fresh dictionary again - until the retry
// loop of the producer gave up with panic("Too many consecutive schema
// updates").  On a warm stream the same happened because RevertCounters
// restored the cumulative total the reset had just cleared.  Fixed: a reset
// is requested only when the dictionary holds values of earlier batches, and
// it clears both counters; otherwise the column falls back to its value type.

import (
	"fmt"
	"testing"

	"go.opentelemetry.io/collector/pdata/plog"
)

func d18Logs(n, distinct int) plog.Logs {
	ld := plog.NewLogs()
	lrs := ld.ResourceLogs().AppendEmpty().ScopeLogs().AppendEmpty().LogRecords()
	for i := 0; i < n; i++ {
		lrs.AppendEmpty().SetSeverityText(fmt.Sprintf("sev-%d", i%distinct))
	}
	return ld
}

func d18Send(t *testing.T, batches ...plog.Logs) {
	producer := NewProducer()
	defer producer.Close()
	consumer := NewConsumer()
	defer consumer.Close()
	for k, ld := range batches {
		var panicked interface{}
		var err error
		var out []plog.Logs
		func() {
			defer func() { panicked = recover() }()
			bar, e := producer.BatchArrowRecordsFromLogs(ld)
			if e != nil {
				err = e
				return
			}
			out, err = consumer.LogsFrom(bar)
		}()
		if panicked != nil {
			t.Fatalf("batch %d: panic on a valid logs batch: %v", k, panicked)
		}
		if err != nil {
			t.Fatalf("batch %d: %v", k, err)
		}
		if len(out) != 1 || out[0].LogRecordCount() != ld.LogRecordCount() {
			t.Fatalf("batch %d: decoded %d batches", k, len(out))
		}
		want := map[string]int{}
		got := map[string]int{}
		in := ld.ResourceLogs().At(0).ScopeLogs().At(0).LogRecords()
		for i := 0; i < in.Len(); i++ {
			want[in.At(i).SeverityText()]++
		}
		for r := 0; r < out[0].ResourceLogs().Len(); r++ {
			for s := 0; s < out[0].ResourceLogs().At(r).ScopeLogs().Len(); s++ {
				o := out[0].ResourceLogs().At(r).ScopeLogs().At(s).LogRecords()
				for i := 0; i < o.Len(); i++ {
					got[o.At(i).SeverityText()]++
				}
			}
		}
		if len(got) != len(want) {
			t.Fatalf("batch %d: %d distinct severity texts decoded, want %d", k, len(got), len(want))
		}
		for k2, v := range want {
			if got[k2] != v {
				t.Fatalf("batch %d: severity text %q decoded %d times, want %d", k, k2, got[k2], v)
			}
		}
	}
}

func TestReplayD18ManyDistinctValuesFirstBatch(t *testing.T) {
	d18Send(t, d18Logs(250000, 70000), d18Logs(10, 3))
}

func TestReplayD18ManyDistinctValuesWarmStream(t *testing.T) {
	d18Send(t, d18Logs(1000, 5), d18Logs(250000, 70000), d18Logs(10, 3))
}
