package arrow_record

// Replay of finding D19 (C14, fixed). Written by a seeding sub-agent as a side finding on the unchanged tree, kept as is.
//
// Copy into pkg/otel/arrow_record/ and run
//   go test -vet=off -count=1 -run TestC14mBaseline ./pkg/otel/arrow_record/
// Both tests FAIL on the unchanged code base.
//
// Consume returns at the first payload whose reader runs out of memory, so the
// readers of the payloads that follow it in the same batch never see their
// part of that batch (dictionary deltas, or the schema message of a new schema
// id).  Only the reader of the refused payload is in the (sticky) error
// state.  When the producer later changes the schema of that payload type
// only (here: the SPANS record gets a trace_state column), the refused reader
// is replaced, the batch is accepted again, and the other readers continue
// from a stream with a hole in it:
//
//   (a) TestC14mBaselinePanicAfterRefusal: they append the new dictionary
//       delta to a dictionary that misses the delta of the refused batch; the
//       OTLP decoder then indexes past the end of the dictionary and the
//       consumer PANICS (index out of range) - although the same stream
//       decodes with a larger limit and the batch itself fits the limit.
//   (b) TestC14mBaselineNonLimitErrorAfterRefusal: the skipped payload
//       introduced a new schema id (dictionary index overflow, uint8 ->
//       uint16); the next batch uses that schema id without a schema message,
//       and is refused for ever with
//       "arrow/ipc: invalid message type (got=DictionaryBatch, want=Schema)",
//       which is not recognisable as the memory-limit error.

import (
	"errors"
	"fmt"
	"testing"

	"github.com/stretchr/testify/require"
	"go.opentelemetry.io/collector/pdata/pcommon"
	"go.opentelemetry.io/collector/pdata/ptrace"
	"go.opentelemetry.io/collector/pdata/ptrace/ptraceotlp"

	colarspb "github.com/open-telemetry/otel-arrow/api/experimental/arrow/v1"
)

func c14mSideTraces(n int, tag string, traceState bool) ptrace.Traces {
	td := ptrace.NewTraces()
	rs := td.ResourceSpans().AppendEmpty()
	rs.Resource().Attributes().PutStr("service", "svc")
	ss := rs.ScopeSpans().AppendEmpty()
	ss.Scope().SetName("scope")
	for i := 0; i < n; i++ {
		sp := ss.Spans().AppendEmpty()
		sp.SetName(fmt.Sprintf("span-%s-%d", tag, i%3))
		sp.SetTraceID(pcommon.TraceID([16]byte{1, byte(i), byte(i >> 8)}))
		sp.SetSpanID(pcommon.SpanID([8]byte{2, byte(i), byte(i >> 8)}))
		sp.SetStartTimestamp(pcommon.Timestamp(1000 + i))
		sp.SetEndTimestamp(pcommon.Timestamp(2000 + i))
		sp.Attributes().PutStr(fmt.Sprintf("key-%s-%d", tag, i), fmt.Sprintf("val-%s-%d", tag, i))
		if traceState {
			// first use of this column: new schema id for the SPANS payload only
			sp.TraceState().FromRaw("a=b")
		}
		ev := sp.Events().AppendEmpty()
		ev.SetName(fmt.Sprintf("event-%s-%d", tag, i))
		ev.Attributes().PutStr(fmt.Sprintf("ekey-%s-%d", tag, i), fmt.Sprintf("eval-%s-%d", tag, i))
	}
	return td
}

// stream: small batch, big batch (refused under a small limit), two small
// batches whose SPANS payload has a new schema.
func c14mSideRun(t *testing.T, bigBatchSpans int, limits []uint64) {
	producer := NewProducer()
	defer func() { _ = producer.Close() }()
	inputs := []ptrace.Traces{
		c14mSideTraces(3, "a", false),
		c14mSideTraces(bigBatchSpans, "b", false),
		c14mSideTraces(3, "c", true),
		c14mSideTraces(3, "d", true),
	}
	var batches []*colarspb.BatchArrowRecords
	for _, td := range inputs {
		batch, err := producer.BatchArrowRecordsFromTraces(td)
		require.NoError(t, err)
		batches = append(batches, batch)
	}

	// With the default limit the whole stream decodes.
	ref := make([]string, len(batches))
	refConsumer := NewConsumer()
	for i, b := range batches {
		out, err := refConsumer.TracesFrom(b)
		require.NoError(t, err)
		js, err := ptraceotlp.NewExportRequestFromTraces(out[0]).MarshalJSON()
		require.NoError(t, err)
		ref[i] = string(js)
	}
	require.NoError(t, refConsumer.Close())

	for _, limit := range limits {
		consumer := NewConsumer(WithMemoryLimit(limit))
		for i, b := range batches {
			func() {
				defer func() {
					if r := recover(); r != nil {
						t.Errorf("limit %d, batch %d: consumer PANICS: %v", limit, i, r)
					}
				}()
				out, err := consumer.TracesFrom(b)
				switch {
				case err == nil:
					js, _ := ptraceotlp.NewExportRequestFromTraces(out[0]).MarshalJSON()
					if string(js) != ref[i] {
						t.Errorf("limit %d, batch %d: decoded telemetry differs from the one decoded with the default limit", limit, i)
					}
				case errors.Is(err, ErrConsumerMemoryLimit):
					// refused, recognisably
				default:
					t.Errorf("limit %d, batch %d: refused with an error that is not the memory-limit error: %v", limit, i, err)
				}
			}()
		}
	}
}

// 100 spans in the big batch: no schema change in the attribute payloads;
// observed on the unchanged code: limits 4160..8191 -> batch 2 (and from 5120
// also batch 3) panic with "index out of range [103] with length 7".
func TestC14mBaselinePanicAfterRefusal(t *testing.T) {
	c14mSideRun(t, 100, []uint64{4160, 5120, 8128})
}

// 300 spans in the big batch: the attribute payloads of the big batch carry a
// new schema id (uint8 -> uint16 dictionary index); observed on the unchanged
// code: limits 3904..17599 -> batches 2 and 3 are refused with
// "invalid message type (got=DictionaryBatch, want=Schema)".
func TestC14mBaselineNonLimitErrorAfterRefusal(t *testing.T) {
	c14mSideRun(t, 300, []uint64{3904, 8192, 17536})
}
