#!/bin/bash
# run_demo.sh <demo_test.go> <package dir relative to /repo> <TestName>: injects the test with -overlay (no write to /repo)
export GOFLAGS=-mod=mod GOPROXY=off GOSUMDB=off GOTOOLCHAIN=local
demo=$1; pkg=$2; name=$3
tmp=$(mktemp -d)
echo "{\"Replace\": {\"/repo/$pkg/zz_verif_replay_test.go\": \"$demo\"}}" > $tmp/ov.json
moddir=/repo/$pkg; while [ ! -f $moddir/go.mod ]; do moddir=$(dirname $moddir); done
(cd /repo/$pkg && go test -overlay $tmp/ov.json -vet=off -count=1 -timeout 120s -run "$name" . 2>&1 | tail -15); rc=${PIPESTATUS[0]}
rm -rf $tmp
exit $rc
